import PhotVerif.Driver.ApSum
import PhotVerif.Model.Segm
namespace PhotVerif.Driver
open PhotVerif PhotVerif.Model.Segm

def parseNatList? (s : String) : Option (List Nat) :=
  if s == "-" then some [] else allSome ((s.splitOn ",").map parseNat?)

def parseBool? (s : String) : Option Bool :=
  if s == "1" then some true else if s == "0" then some false else none

def parseDmap? (toks : List String) : Option (List (Nat × List Nat)) :=
  if toks == ["-"] then some [] else
  allSome (toks.map fun t => match t.splitOn ":" with
    | [p, cs] => do let p ← parseNat? p; let cs ← parseNatList? cs; some (p, cs)
    | _ => none)

def showBox (b : Box) : String := s!"{b.y0}:{b.y1}:{b.x0}:{b.x1}"
def showNats (l : List Nat) : String := if l.isEmpty then "-" else ",".intercalate (l.map toString)

def showOut : Out → String
  | .unit => "ok"
  | .err e => showErr e
  | .nat v => s!"ok {v}"
  | .nats v => "ok " ++ showNats v
  | .boxes v => "ok " ++ (if v.isEmpty then "-" else " ".intercalate (v.map showBox))
  | .raw v => "ok " ++ (if v.isEmpty then "-" else " ".intercalate (v.map fun o => match o with
      | some b => showBox b | none => "none"))

def showDmap (dm : List (Nat × List Nat)) : String :=
  if dm.isEmpty then "ok -" else "ok " ++ " ".intercalate (dm.map fun (p, cs) => s!"{p}:{showNats cs}")

/-- stateful handler: the current SegmentationImage model state lives in the driver loop -/
def handleSegm (st : Option State) (op : String) (args : List String) : Option (Option State × String) :=
  match op, splitBar args with
  | "segm.new", [hd, ds, dm] => do
      let [ny, nx, dtmax] ← allSome (hd.map parseNat?) | none
      let dl ← allSome (ds.map parseNat?)
      if dl.length ≠ ny * nx then none else
      let dm ← parseDmap? dm
      some (some { init ny nx dl.toArray dtmax with dmap := dm }, "ok")
  | "segm.newdetected", [hd, ds] => do   -- as built by _detect_sources: labels and slices seeded
      let [ny, nx, dtmax] ← allSome (hd.map parseNat?) | none
      let dl ← allSome (ds.map parseNat?)
      if dl.length ≠ ny * nx then none else
      let s := init ny nx dl.toArray dtmax
      some (some (readSlices s).1, "ok")
  | "segm.setdata", [hd, ds] => do
      let s ← st
      let [ny, nx, dtmax] ← allSome (hd.map parseNat?) | none
      let dl ← allSome (ds.map parseNat?)
      if dl.length ≠ ny * nx then none else
      some (some (setData s ny nx dl.toArray dtmax), "ok")
  | _, [a] => do
      let s ← st
      let run (o : Op) : Option (Option State × String) :=
        let (s', out) := step s o
        some (some s', showOut out)
      match op, a with
      | "segm.read", ["labels"] => run .readLabels
      | "segm.read", ["raw"] => run .readRaw
      | "segm.read", ["slices"] => run .readSlices
      | "segm.read", ["areas"] => run .readAreas
      | "segm.read", ["nlabels"] => run .readNlabels
      | "segm.read", ["max"] => run .readMax
      | "segm.read", ["dmap"] => some (some s, showDmap s.dmap)
      | "segm.read", ["data"] => some (some s, "ok " ++ joinSp ((List.range s.n).map fun p => toString (s.d p)))
      | "segm.reassign", [ls, new, rl] => do
          run (.reassign (← parseNatList? ls) (← parseNat? new) (← parseBool? rl))
      | "segm.relabel", [start] => do run (.relabel (← parseInt? start))
      | "segm.keep", [ls, rl] => do run (.keep (← parseNatList? ls) (← parseBool? rl))
      | "segm.remove", [ls, rl] => do run (.remove (← parseNatList? ls) (← parseBool? rl))
      | "segm.rmborder", [w, po, rl] => do
          run (.removeBorder (← parseNat? w) (← parseBool? po) (← parseBool? rl))
      | "segm.rmmask", [bits, po, rl] => do
          let m ← allSome (bits.toList.map fun c => if c == '1' then some true else if c == '0' then some false else none)
          run (.removeMasked m (← parseBool? po) (← parseBool? rl))
      | _, _ => none
  | _, _ => none

end PhotVerif.Driver
