import PhotVerif.Driver.ApSum
import PhotVerif.Model.PsfBook
import PhotVerif.Model.Psf
namespace PhotVerif.Driver
open PhotVerif PhotVerif.Model PhotVerif.Model.PsfBook

def handlePsf (op : String) (args : List String) : Option String :=
  match op, splitBar args with
  | "group", [[sep2], xs, ys] => do
      let sep2 ← parseRat? sep2
      let xs ← allSome (xs.map parseRat?); let ys ← allSome (ys.map parseRat?)
      if xs.length ≠ ys.length then none else
      let g := groupIds xs ys sep2
      some ("ok " ++ joinSp (g.map toString) ++ " | " ++ joinSp ((groupSizes g).map toString)
        ++ " | " ++ joinSp ((groupOrder g).map toString))
  | "npixfit", [hd, ms] => do
      let [ny, nx, fy, fx, x, y] := hd | none
      let ny ← parseNat? ny; let nx ← parseNat? nx; let fy ← parseNat? fy; let fx ← parseNat? fx
      let x ← parseRat? x; let y ← parseRat? y
      let mask ← parseMask ms ny nx
      let inv := invalidPosition ny nx fy fx x y
      some (match npixfit ny nx fy fx x y (fun a b => mask a b) with
        | none => s!"none {inv}"
        | some k => s!"ok {k} {inv} {centreIndex x} {centreIndex y}")
  | "psfflags", [[ny, nx, fy, fx, npix, xf, yf, fl]] => do
      let ny ← parseNat? ny; let nx ← parseNat? nx; let fy ← parseNat? fy; let fx ← parseNat? fx
      let npix ← parseNat? npix; let xf ← parseRat? xf; let yf ← parseRat? yf; let fl ← parseRat? fl
      some s!"ok {flags ny nx fy fx npix xf yf fl false false false}"
  | "psf.bounds", [gs, [x]] => do
      let g ← allSome (gs.map parseRat?); let x ← parseRat? x
      if g.isEmpty then none else
      let (a, b) := Model.Psf.bounds1 g x
      some s!"ok {showRat a} {showRat b}"
  | "psf.weights", [[x0, x1, y0, y1, x, y]] => do
      let x0 ← parseRat? x0; let x1 ← parseRat? x1; let y0 ← parseRat? y0; let y1 ← parseRat? y1
      let x ← parseRat? x; let y ← parseRat? y
      let (a, b, c, d) := Model.Psf.bilinearWeights x0 x1 y0 y1 x y
      some s!"ok {showRat a} {showRat b} {showRat c} {showRat d}"
  | "psf.origin", [[ny, nx]] => do
      -- default origins (x, y) of GriddedPSFModel and of ImagePSF(origin=None) for ePSF arrays of ny x nx samples
      let ny ← parseNat? ny; let nx ← parseNat? nx
      some s!"ok {showRat (Model.Psf.griddedOrigin nx)} {showRat (Model.Psf.griddedOrigin ny)} {showRat (Model.Psf.imageOrigin nx)} {showRat (Model.Psf.imageOrigin ny)}"
  | "psf.coord", [[os, origin, x, x0, n]] => do
      let os ← parseRat? os; let origin ← parseRat? origin; let x ← parseRat? x; let x0 ← parseRat? x0
      let n ← parseNat? n
      let xi := Model.Psf.arrayCoord os origin x x0
      some s!"ok {showRat xi} {Model.Psf.isInvalid n xi}"
  | _, _ => none

end PhotVerif.Driver
