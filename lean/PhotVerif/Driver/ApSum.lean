import PhotVerif.Driver.Basic
import PhotVerif.Model.ApSum
namespace PhotVerif.Driver
open PhotVerif PhotVerif.Gen PhotVerif.Model

/-- split a token list at "|" separators -/
def splitBar (l : List String) : List (List String) :=
  l.foldr (fun t acc => if t == "|" then [] :: acc else
    match acc with | [] => [[t]] | h :: r => (t :: h) :: r) [[]]

def arr2 {α} [Inhabited α] (a : Array α) (nx : Int) (dflt : α) : Int → Int → α :=
  fun y x => if y < 0 ∨ x < 0 ∨ x ≥ nx then dflt else (a.getD ((y * nx + x).toNat) dflt)

def parseMask (ms : List String) (ny nx : Int) : Option (Int → Int → Bool) :=
  if ms == ["-"] then some (fun _ _ => false) else
  match allSome (ms.map fun t => if t == "1" then some true else if t == "0" then some false else none) with
  | none => none
  | some ml => if ml.length ≠ (ny * nx).toNat then none else some (arr2 ml.toArray nx false)

def parseErrArr (es : List String) (ny nx : Int) : Option (Option (Int → Int → V)) :=
  if es == ["-"] then some none else
  match allSome (es.map V.parse?) with
  | none => none
  | some el => if el.length ≠ (ny * nx).toNat then none else some (some (arr2 el.toArray nx V.nan))

/-- `apsum ixmin ixmax iymin iymax ny nx | w.. | data.. | mask..|- | err..|-` -/
def handleApSum (op : String) (args : List String) : Option String :=
  match op, splitBar args with
  | "apsum", [hd, ws, ds, ms, es] => do
      let [a, b, c, d, ny, nx] ← allSome (hd.map parseInt?) | none
      let bb : BBox := ⟨a, b, c, d⟩
      let wl ← allSome (ws.map parseRat?)
      let dl ← allSome (ds.map V.parse?)
      let bw := b - a
      if wl.length ≠ ((d - c) * bw).toNat ∨ dl.length ≠ (ny * nx).toNat ∨ ny ≤ 0 ∨ nx ≤ 0 then none else
      let w := arr2 wl.toArray bw (0 : Rat)
      let data := arr2 dl.toArray nx V.nan
      let mask ← parseMask ms ny nx
      let err ← parseErrArr es ny nx
      let s := apSum V.smul bb w ny nx data mask
      let var := match err with
        | none => none
        | some e => some (apSum V.smul bb w ny nx (fun y x => V.sq (e y x)) mask)
      let area := areaOverlap bb w ny nx mask
      match s, area with
      | .ok none, .ok none => some "none"
      | .ok (some sv), .ok (some ar) =>
          let vs := match var with
            | none => "-"
            | some (.ok (some v)) => v.toString
            | _ => "?"
          some s!"ok {sv.toString} {vs} {showRat ar}"
      | .error e, _ => some (showErr e)
      | _, _ => some "inconsistent"
  | _, _ => none

end PhotVerif.Driver
