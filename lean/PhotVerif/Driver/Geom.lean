import PhotVerif.Driver.Basic
import PhotVerif.Gen.BBox
import PhotVerif.Gen.Geom
import PhotVerif.Model.Mask
namespace PhotVerif.Driver
open PhotVerif PhotVerif.Gen PhotVerif.Model

instance : MathOps Rat := ⟨fun _ => 0, fun _ => 0, fun _ => 0, fun _ => 0,
  fun x => if x < 0 then -x else x, 0⟩  -- only `fabs` is meaningful on Rat; see handlers

def showBBox (b : BBox) : String := s!"ok {b.ixmin} {b.ixmax} {b.iymin} {b.iymax}"

def showSl (s : Slc) : String := s!"{s.start} {s.stop}"

def collect {α} : List (Except Err α) → Except Err (List α)
  | [] => .ok []
  | c :: r => match c, collect r with
      | .ok v, .ok l => .ok (v :: l)
      | .error e, _ => .error e
      | _, .error e => .error e

def gridF (f : Nat → Nat → Except Err Float) (nx ny : Nat) : String :=
  let cells := (List.range ny).flatMap fun j => (List.range nx).map fun i => f i j
  match collect cells with
  | .ok l => "ok " ++ joinSp (l.map showFloat)
  | .error e => showErr e

def parseMode? : String → Option Mode
  | "center" => some .center | "subpixel" => some .subpixel | "exact" => some .exact | _ => none

def parseOptRat? (s : String) : Option (Option Rat) :=
  if s == "-" then some none else (parseRat? s).map some

def trigInst (c s : Rat) : MathOps Rat :=
  ⟨fun _ => 0, fun _ => 0, fun _ => s, fun _ => c, fun x => if x < 0 then -x else x, 0⟩

def showMask (m : Except Err (AMask Rat)) : String :=
  match m with
  | .error e => showErr e
  | .ok m =>
    let (ny, nx) := m.bbox.shape
    let ws := (List.range ny.toNat).flatMap fun j => (List.range nx.toNat).map fun i => showRat (m.w j i)
    s!"ok {m.bbox.ixmin} {m.bbox.ixmax} {m.bbox.iymin} {m.bbox.iymax} | " ++ joinSp ws

def handleMask (op : String) (args : List String) : Option String :=
  match op, args with
  | "mask.circ", [cx, cy, r, rin, mode, sp] => do
      let cx ← parseRat? cx; let cy ← parseRat? cy; let r ← parseRat? r
      let rin ← parseOptRat? rin; let mode ← parseMode? mode; let sp ← parseInt? sp
      if mode == .exact then none else
      some (showMask (circMask cx cy r rin mode sp))
  | "mask.ell", [cx, cy, a, b, c, s, x0, x1, y0, y1, ai, bi, mode, sp] => do
      let cx ← parseRat? cx; let cy ← parseRat? cy; let a ← parseRat? a; let b ← parseRat? b
      let c ← parseRat? c; let s ← parseRat? s; let x0 ← parseRat? x0; let x1 ← parseRat? x1
      let y0 ← parseRat? y0; let y1 ← parseRat? y1
      let ai ← parseOptRat? ai; let bi ← parseOptRat? bi
      let mode ← parseMode? mode; let sp ← parseInt? sp
      if mode == .exact then none else
      let inner := match ai, bi with | some x, some y => some (x, y) | _, _ => none
      some (showMask (@ellMask Rat _ _ _ _ _ _ _ _ _ _ _ _ _ (trigInst c s) cx cy a b 0 x0 x1 y0 y1 inner mode sp))
  | "mask.rect", [cx, cy, w, h, c, s, x0, x1, y0, y1, wi, hi, mode, sp] => do
      let cx ← parseRat? cx; let cy ← parseRat? cy; let w ← parseRat? w; let h ← parseRat? h
      let c ← parseRat? c; let s ← parseRat? s; let x0 ← parseRat? x0; let x1 ← parseRat? x1
      let y0 ← parseRat? y0; let y1 ← parseRat? y1
      let wi ← parseOptRat? wi; let hi ← parseOptRat? hi
      let mode ← parseMode? mode; let sp ← parseInt? sp
      let inner := match wi, hi with | some x, some y => some (x, y) | _, _ => none
      some (showMask (@rectMask Rat _ _ _ _ _ _ _ _ _ _ _ _ _ (trigInst c s) cx cy w h 0 x0 x1 y0 y1 inner mode sp))
  | _, _ => none

def handleGeom (op : String) (args : List String) : Option String :=
  match op with
  | "bbox.from_float" => do
      let [a, b, c, d] ← allSome (args.map parseRat?) | none
      some (match BBox.fromFloat a b c d with | .ok bb => showBBox bb | .error e => showErr e)
  | "bbox.init" => do
      let [a, b, c, d] ← allSome (args.map parseInt?) | none
      some (match BBox.init a b c d with | .ok bb => showBBox bb | .error e => showErr e)
  | "bbox.overlap" => do
      let [a, b, c, d, ny, nx] ← allSome (args.map parseInt?) | none
      some (match BBox.getOverlapSlices ⟨a, b, c, d⟩ (ny, nx) with
        | .ok none => "none"
        | .ok (some ((ly, lx), (sy, sx))) => s!"ok {showSl ly} {showSl lx} {showSl sy} {showSl sx}"
        | .error e => showErr e)
  | "bbox.union" => do
      let [a, b, c, d, a2, b2, c2, d2] ← allSome (args.map parseInt?) | none
      some (match BBox.union ⟨a, b, c, d⟩ ⟨a2, b2, c2, d2⟩ with
        | .ok bb => showBBox bb | .error e => showErr e)
  | "bbox.intersection" => do
      let [a, b, c, d, a2, b2, c2, d2] ← allSome (args.map parseInt?) | none
      some (match BBox.intersection ⟨a, b, c, d⟩ ⟨a2, b2, c2, d2⟩ with
        | .ok none => "none" | .ok (some bb) => showBBox bb | .error e => showErr e)
  | "bbox.shape" => do
      let [a, b, c, d] ← allSome (args.map parseInt?) | none
      let s := BBox.shape ⟨a, b, c, d⟩
      some s!"ok {s.1} {s.2}"
  -- Float instantiation of the generated kernels (bit-compared with the compiled .so)
  | "geomf.circ" => do
      let [xmin, xmax, ymin, ymax, nx, ny, r, ue, sp] := args | none
      let xmin ← parseFloat? xmin; let xmax ← parseFloat? xmax
      let ymin ← parseFloat? ymin; let ymax ← parseFloat? ymax
      let nx ← parseNat? nx; let ny ← parseNat? ny; let r ← parseFloat? r
      let ue ← parseInt? ue; let sp ← parseInt? sp
      some (gridF (fun i j => circular_overlap_grid xmin xmax ymin ymax nx ny r ue sp i j) nx ny)
  | "geomf.ell" => do
      let [xmin, xmax, ymin, ymax, nx, ny, rx, ry, th, ue, sp] := args | none
      let xmin ← parseFloat? xmin; let xmax ← parseFloat? xmax
      let ymin ← parseFloat? ymin; let ymax ← parseFloat? ymax
      let nx ← parseNat? nx; let ny ← parseNat? ny
      let rx ← parseFloat? rx; let ry ← parseFloat? ry; let th ← parseFloat? th
      let ue ← parseInt? ue; let sp ← parseInt? sp
      some (gridF (fun i j => elliptical_overlap_grid xmin xmax ymin ymax nx ny rx ry th ue sp i j) nx ny)
  | "geomf.rect" => do
      let [xmin, xmax, ymin, ymax, nx, ny, w, h, th, ue, sp] := args | none
      let xmin ← parseFloat? xmin; let xmax ← parseFloat? xmax
      let ymin ← parseFloat? ymin; let ymax ← parseFloat? ymax
      let nx ← parseNat? nx; let ny ← parseNat? ny
      let w ← parseFloat? w; let h ← parseFloat? h; let th ← parseFloat? th
      let ue ← parseInt? ue; let sp ← parseInt? sp
      some (gridF (fun i j => rectangular_overlap_grid xmin xmax ymin ymax nx ny w h th ue sp i j) nx ny)
  -- exact rational sub-pixel kernels (no trig: cos/sin passed in)
  | "geomq.circ_sub" => do
      let [x0, y0, x1, y1, r, sp] := args | none
      let x0 ← parseRat? x0; let y0 ← parseRat? y0; let x1 ← parseRat? x1; let y1 ← parseRat? y1
      let r ← parseRat? r; let sp ← parseInt? sp
      if sp ≤ 0 then none else
      some ("ok " ++ showRat (circular_overlap_single_subpixel x0 y0 x1 y1 r sp))
  | _ => none

end PhotVerif.Driver
