import PhotVerif.Driver.Basic
import PhotVerif.Gen.BBox
import PhotVerif.Gen.Geom
namespace PhotVerif.Driver
open PhotVerif PhotVerif.Gen

instance : MathOps Rat := ⟨fun _ => 0, fun _ => 0, fun _ => 0, fun _ => 0,
  fun x => if x < 0 then -x else x, 0⟩  -- only `fabs` is meaningful on Rat; see handlers

def showBBox (b : BBox) : String := s!"ok {b.ixmin} {b.ixmax} {b.iymin} {b.iymax}"

def showSl (s : Slc) : String := s!"{s.start} {s.stop}"

def collect {α} : List (Except Err α) → Except Err (List α)
  | [] => .ok []
  | c :: r => match c, collect r with
      | .ok v, .ok l => .ok (v :: l)
      | .error e, _ => .error e
      | _, .error e => .error e

def gridF (f : Nat → Nat → Except Err Float) (nx ny : Nat) : String :=
  let cells := (List.range ny).flatMap fun j => (List.range nx).map fun i => f i j
  match collect cells with
  | .ok l => "ok " ++ joinSp (l.map showFloat)
  | .error e => showErr e

def handleGeom (op : String) (args : List String) : Option String :=
  match op with
  | "bbox.from_float" => do
      let [a, b, c, d] ← allSome (args.map parseRat?) | none
      some (match BBox.fromFloat a b c d with | .ok bb => showBBox bb | .error e => showErr e)
  | "bbox.init" => do
      let [a, b, c, d] ← allSome (args.map parseInt?) | none
      some (match BBox.init a b c d with | .ok bb => showBBox bb | .error e => showErr e)
  | "bbox.overlap" => do
      let [a, b, c, d, ny, nx] ← allSome (args.map parseInt?) | none
      some (match BBox.getOverlapSlices ⟨a, b, c, d⟩ (ny, nx) with
        | .ok none => "none"
        | .ok (some ((ly, lx), (sy, sx))) => s!"ok {showSl ly} {showSl lx} {showSl sy} {showSl sx}"
        | .error e => showErr e)
  | "bbox.union" => do
      let [a, b, c, d, a2, b2, c2, d2] ← allSome (args.map parseInt?) | none
      some (match BBox.union ⟨a, b, c, d⟩ ⟨a2, b2, c2, d2⟩ with
        | .ok bb => showBBox bb | .error e => showErr e)
  | "bbox.intersection" => do
      let [a, b, c, d, a2, b2, c2, d2] ← allSome (args.map parseInt?) | none
      some (match BBox.intersection ⟨a, b, c, d⟩ ⟨a2, b2, c2, d2⟩ with
        | .ok none => "none" | .ok (some bb) => showBBox bb | .error e => showErr e)
  | "bbox.shape" => do
      let [a, b, c, d] ← allSome (args.map parseInt?) | none
      let s := BBox.shape ⟨a, b, c, d⟩
      some s!"ok {s.1} {s.2}"
  -- Float instantiation of the generated kernels (bit-compared with the compiled .so)
  | "geomf.circ" => do
      let [xmin, xmax, ymin, ymax, nx, ny, r, ue, sp] := args | none
      let xmin ← parseFloat? xmin; let xmax ← parseFloat? xmax
      let ymin ← parseFloat? ymin; let ymax ← parseFloat? ymax
      let nx ← parseNat? nx; let ny ← parseNat? ny; let r ← parseFloat? r
      let ue ← parseInt? ue; let sp ← parseInt? sp
      some (gridF (fun i j => circular_overlap_grid xmin xmax ymin ymax nx ny r ue sp i j) nx ny)
  | "geomf.ell" => do
      let [xmin, xmax, ymin, ymax, nx, ny, rx, ry, th, ue, sp] := args | none
      let xmin ← parseFloat? xmin; let xmax ← parseFloat? xmax
      let ymin ← parseFloat? ymin; let ymax ← parseFloat? ymax
      let nx ← parseNat? nx; let ny ← parseNat? ny
      let rx ← parseFloat? rx; let ry ← parseFloat? ry; let th ← parseFloat? th
      let ue ← parseInt? ue; let sp ← parseInt? sp
      some (gridF (fun i j => elliptical_overlap_grid xmin xmax ymin ymax nx ny rx ry th ue sp i j) nx ny)
  | "geomf.rect" => do
      let [xmin, xmax, ymin, ymax, nx, ny, w, h, th, ue, sp] := args | none
      let xmin ← parseFloat? xmin; let xmax ← parseFloat? xmax
      let ymin ← parseFloat? ymin; let ymax ← parseFloat? ymax
      let nx ← parseNat? nx; let ny ← parseNat? ny
      let w ← parseFloat? w; let h ← parseFloat? h; let th ← parseFloat? th
      let ue ← parseInt? ue; let sp ← parseInt? sp
      some (gridF (fun i j => rectangular_overlap_grid xmin xmax ymin ymax nx ny w h th ue sp i j) nx ny)
  -- exact rational sub-pixel kernels (no trig: cos/sin passed in)
  | "geomq.circ_sub" => do
      let [x0, y0, x1, y1, r, sp] := args | none
      let x0 ← parseRat? x0; let y0 ← parseRat? y0; let x1 ← parseRat? x1; let y1 ← parseRat? y1
      let r ← parseRat? r; let sp ← parseInt? sp
      if sp ≤ 0 then none else
      some ("ok " ++ showRat (circular_overlap_single_subpixel x0 y0 x1 y1 r sp))
  | _ => none

end PhotVerif.Driver
