import PhotVerif.Driver.ApSum
import PhotVerif.Model.Render
namespace PhotVerif.Driver
open PhotVerif PhotVerif.Model.Render

def parseRows (ny nx : Nat) : List (List String) → Option (List Row)
  | [] => some []
  | hd :: vs :: rest => do
      let [x0, y0, sy, sx, bkg, un] := hd | none
      let x0 ← parseRat? x0; let y0 ← parseRat? y0; let sy ← parseNat? sy; let sx ← parseNat? sx
      let bkg ← parseRat? bkg
      let vl ← allSome (vs.map parseRat?)
      if vl.length ≠ ny * nx then none else
      let va := vl.toArray
      let r : Row := ⟨x0, y0, sy, sx, bkg, un == "1", fun y x => va.getD (y * nx + x) 0⟩
      (parseRows ny nx rest).map (r :: ·)
  | _ => none

/-- `render ny nx | x0 y0 sy sx bkg unit | full-frame values | ...` -/
def handleRender (op : String) (args : List String) : Option String :=
  match op, splitBar args with
  | "render", hd :: groups => do
      let [ny, nx] ← allSome (hd.map parseNat?) | none
      let rows ← parseRows ny nx (groups.filter (· ≠ []))
      let img := render ny nx rows
      let px := (List.range (ny * nx)).map fun p => showRat (img (p / nx) (p % nx))
      some (s!"ok {if outputHasUnit ny nx rows then 1 else 0} | " ++ joinSp px)
  | "window1", [[large, small, pos]] => do
      let large ← parseNat? large; let small ← parseNat? small; let pos ← parseRat? pos
      some (match window1 large small pos with | none => "none" | some (a, b) => s!"ok {a} {b}")
  | _, _ => none

end PhotVerif.Driver
