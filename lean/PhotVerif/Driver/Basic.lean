/-
  Line-protocol plumbing for the model driver (core Lean only).
  One request per line: `<op> tok tok ...`; one reply line per request.
-/
import PhotVerif.Model.Prelude
namespace PhotVerif.Driver
open PhotVerif

def parseInt? (s : String) : Option Int := s.toInt?

def parseNat? (s : String) : Option Nat := s.toNat?

/-- rationals travel as `num/den` or plain integers -/
def parseRat? (s : String) : Option Rat :=
  match s.splitOn "/" with
  | [n] => n.toInt?.map (fun (z : Int) => (z : Rat))
  | [n, d] => do
      let z ← n.toInt?
      let m ← d.toNat?
      if m = 0 then none else some (mkRat z m)
  | _ => none

/-- floats travel as the decimal value of their 64 bit pattern -/
def parseFloat? (s : String) : Option Float := s.toNat?.map (fun n => Float.ofBits n.toUInt64)

def showRat (q : Rat) : String :=
  if q.den = 1 then toString q.num else s!"{q.num}/{q.den}"

def showFloat (f : Float) : String := toString f.toBits.toNat

def allSome {α} : List (Option α) → Option (List α)
  | [] => some []
  | none :: _ => none
  | some a :: r => (allSome r).map (a :: ·)

def tokens (line : String) : List String :=
  (line.trimAscii.toString.splitOn " ").filter (· ≠ "")

def showErr (e : Err) : String := "err " ++ e.name

def joinSp (l : List String) : String := " ".intercalate l

end PhotVerif.Driver
