import PhotVerif.Driver.ApSum
import PhotVerif.Model.ApStats
namespace PhotVerif.Driver
open PhotVerif PhotVerif.Gen PhotVerif.Model PhotVerif.Model.ApStats

/-- `apstats ixmin ixmax iymin iymax ny nx lb | wc | ws | data | mask | err|- | clipC | clipS` -/
def handleApStats (op : String) (args : List String) : Option String :=
  match op, splitBar args with
  | "apstats", [hd, wcs, wss, ds, ms, es, c1, c2] => do
      let [a, b, c, d, ny, nx, lb] := hd | none
      let a ← parseInt? a; let b ← parseInt? b; let c ← parseInt? c; let d ← parseInt? d
      let ny ← parseInt? ny; let nx ← parseInt? nx; let lb ← parseRat? lb
      let bb : BBox := ⟨a, b, c, d⟩
      let wcl ← allSome (wcs.map parseRat?)
      let wsl ← allSome (wss.map parseRat?)
      let dl ← allSome (ds.map V.parse?)
      let bw := b - a
      if wcl.length ≠ ((d - c) * bw).toNat ∨ wsl.length ≠ wcl.length ∨ dl.length ≠ (ny * nx).toNat ∨ ny ≤ 0 ∨ nx ≤ 0 then none else
      let mask ← parseMask ms ny nx
      let err ← parseErrArr es ny nx
      let clipC ← parseMask c1 ny nx
      let clipS ← parseMask c2 ny nx
      let I : Inp := { ny := ny, nx := nx, bbox := bb, data := arr2 dl.toArray nx V.nan, mask := mask, lb := lb,
                       wc := arr2 wcl.toArray bw 0, ws := arr2 wsl.toArray bw 0, err := err, clipC := clipC, clipS := clipS }
      match overlap I with
      | .error e => some (showErr e)
      | .ok none => some "none"
      | .ok (some ov) =>
        let cv := centreVals I ov
        let st := stats (cv.map (·.2.2))
        let stS := match st with
          | none => "nan"
          | some s => s!"{s.n} {showRat s.sum} {showRat s.min} {showRat s.max} {showRat s.mean} {showRat s.var} {showRat s.median}"
        let sm := match sumMethod I ov with | none => "nan" | some v => showRat v
        let cen := match centroid I cv with | none => "nan nan" | some (x, y) => s!"{showRat x} {showRat y}"
        some s!"ok {stS} | {sm} {match sumArea I ov with | none => "nan" | some a => showRat a} | {cen}"
  | _, _ => none

end PhotVerif.Driver
