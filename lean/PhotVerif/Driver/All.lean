/- all line-protocol handlers -/
import PhotVerif.Driver.Geom
import PhotVerif.Driver.ApSum
import PhotVerif.Driver.Detect
namespace PhotVerif.Driver

def handlers : List (String → List String → Option String) := [handleGeom, handleMask, handleApSum, handleDetect]

def dispatch (line : String) : String :=
  match tokens line with
  | [] => "bad-op"
  | op :: args =>
    match handlers.findSome? (fun h => h op args) with
    | some r => r
    | none => "bad-op"

end PhotVerif.Driver
