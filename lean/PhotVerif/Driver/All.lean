/- all line-protocol handlers -/
import PhotVerif.Driver.Geom
import PhotVerif.Driver.ApSum
import PhotVerif.Driver.Detect
import PhotVerif.Driver.Segm
import PhotVerif.Driver.Deblend
import PhotVerif.Driver.Lazy
import PhotVerif.Driver.Catalog
import PhotVerif.Driver.Peaks
import PhotVerif.Driver.Render
import PhotVerif.Driver.ApStats
import PhotVerif.Driver.Psf
import PhotVerif.Driver.Bkg
import PhotVerif.Driver.Moments
import PhotVerif.Driver.Units
import PhotVerif.Driver.Effects
import PhotVerif.Driver.Isophote
namespace PhotVerif.Driver

/-- driver state: the objects that live across lines (state-machine models) -/
structure DState where
  segm : Option PhotVerif.Model.Segm.State := none

def handlers : List (String → List String → Option String) :=
  [handleGeom, handleMask, handleApSum, handleDetect, handleDeblend, handleLazy, handleCatalog, handlePeaks, handleRender, handleApStats, handlePsf, handleBkg, handleMoments, handleUnits, handleEffects, handleIsophote]

def dispatch (st : DState) (line : String) : DState × String :=
  match tokens line with
  | [] => (st, "bad-op")
  | op :: args =>
    match handlers.findSome? (fun h => h op args) with
    | some r => (st, r)
    | none =>
      match handleSegm st.segm op args with
      | some (s', r) => ({ st with segm := s' }, r)
      | none => (st, "bad-op")

end PhotVerif.Driver
