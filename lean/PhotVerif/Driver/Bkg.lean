import PhotVerif.Driver.ApSum
import PhotVerif.Model.Bkg
namespace PhotVerif.Driver
open PhotVerif PhotVerif.Model PhotVerif.Model.Bkg

/-- `bkgmesh ny nx by bx pct sigma|none maxiters mean|median|sextractor | data (V tokens) | mask bits`
    → per box, row-major: `x n` (excluded) or `bkg var n`, separated by `;` -/
def handleBkg (op : String) (args : List String) : Option String :=
  match op, splitBar args with
  | "bkgmesh", [[ny, nx, byy, bxx, pct, sg, mi, est], ds, ms] => do
      let ny ← parseNat? ny; let nx ← parseNat? nx; let byy ← parseNat? byy; let bxx ← parseNat? bxx
      let pct ← parseRat? pct; let mi ← parseNat? mi
      let sg ← (if sg == "none" then some none else (parseRat? sg).map some)
      let e ← (match est with | "mean" => some Estimator.mean | "median" => some Estimator.median
                              | "sextractor" => some Estimator.sextractor | _ => none)
      let dv ← allSome (ds.map V.parse?)
      if dv.length ≠ ny * nx || ms.length ≠ ny * nx || byy == 0 || bxx == 0 then none else
      let da := dv.toArray
      let ma := (ms.map (· == "1")).toArray
      let c : Cfg := ⟨ny, nx, byy, bxx, pct, sg, mi⟩
      let cells := (List.range (nboxY c * nboxX c)).map fun b =>
        match meshBox c e (fun p => da.getD p .nan) (fun p => ma.getD p true) (b / nboxX c) (b % nboxX c) with
        | (none, n) => s!"x {n}"
        | (some (bk, v), n) => s!"{showRat bk} {showRat v} {n}"
      some ("ok " ++ " ; ".intercalate cells)
  | "idw", [reg] :: groups => do
      let reg ← parseRat? reg
      let dvs ← allSome ((groups.filter (· ≠ [])).map fun g => match g with
        | [d, v, c] => do
            let d ← parseRat? d; let v ← parseRat? v
            some (d, v, c == "1")
        | _ => none)
      some (match idwPoint dvs reg with | none => "none" | some v => s!"ok {showRat v}")
  | _, _ => none

end PhotVerif.Driver
