/-
  Loop lemmas for `forRange` (the translation of `for i in range(n)`).
-/
import PhotVerif.Model.Prelude
import Mathlib.Algebra.Order.Field.Basic
import Mathlib.Tactic.Ring
import Mathlib.Tactic.NormNum
import Mathlib.Tactic.Linarith

set_option linter.unusedTactic false
set_option linter.unreachableTactic false
namespace PhotVerif

theorem forRange_zero {σ : Type} (init : σ) (f : Nat → σ → σ) : forRange 0 init f = init := by
  simp [forRange]

theorem forRange_succ {σ : Type} (n : Nat) (init : σ) (f : Nat → σ → σ) :
    forRange (n + 1) init f = f n (forRange n init f) := by
  simp [forRange, List.range_succ, List.foldl_append]

/-- a loop that advances a coordinate by a fixed step and bumps a counter when a
    predicate of the coordinate holds: closed form of the final state. -/
theorem count_loop {α : Type} [Field α] (n : Nat) (y0 dy : α) (P : α → Prop) [DecidablePred P]
    (frac : α) (f : Nat → α × α → α × α)
    (hf : ∀ j y c, f j (y, c) = if P (y + dy) then (y + dy, c + 1) else (y + dy, c)) :
    forRange n (y0, frac) f
      = (y0 + n * dy, frac + ((List.range n).countP (fun (j : Nat) => decide (P (y0 + ((j : α) + 1) * dy))) : Nat)) := by
  induction n with
  | zero => simp [forRange_zero]
  | succ n ih =>
    rw [forRange_succ, ih, hf]
    have e : y0 + (n : α) * dy + dy = y0 + ((n : α) + 1) * dy := by ring
    rw [e, List.range_succ, List.countP_append]
    by_cases hp : P (y0 + ((n : α) + 1) * dy)
    · simp only [hp, if_true, List.countP_singleton, decide_true, Nat.cast_add, Nat.cast_one, Prod.mk.injEq]
      constructor
      · first | ring | (push_cast; ring) | push_cast
      · first | (push_cast; ring) | (simp; ring) | simp
    · simp only [hp, if_false, List.countP_singleton, decide_false, Nat.cast_add, Prod.mk.injEq]
      constructor
      · first | ring | (push_cast; ring) | push_cast
      · first | simp | (push_cast; ring)

/-- an outer loop that advances `x` and lets an inner computation add `g x` to a counter -/
theorem sum_loop {α : Type} [Field α] (n : Nat) (x0 dx : α) (g : α → Nat)
    (frac : α) (f : Nat → α × α → α × α)
    (hf : ∀ i x c, f i (x, c) = (x + dx, c + (g (x + dx) : α))) :
    forRange n (x0, frac) f
      = (x0 + n * dx, frac + (((List.range n).map (fun (i : Nat) => g (x0 + ((i : α) + 1) * dx))).sum : Nat)) := by
  induction n with
  | zero => simp [forRange_zero]
  | succ n ih =>
    rw [forRange_succ, ih, hf]
    have e : x0 + (n : α) * dx + dx = x0 + ((n : α) + 1) * dx := by ring
    rw [e, List.range_succ, List.map_append, List.sum_append]
    simp only [List.map_cons, List.map_nil, List.sum_cons, List.sum_nil, Nat.add_zero, Nat.cast_add,
      Prod.mk.injEq]
    constructor
    · push_cast; ring
    · ring

end PhotVerif
