/-
  Raster sums: Σ over p < ny·nx of h (p / nx) (p % nx) as a double sum, and sums over a zero-padded
  embedding of an ny × nx raster at offset (dy, dx) inside an NY × NX canvas.
-/
import Mathlib.Algebra.BigOperators.Group.Finset.Basic
import Mathlib.Algebra.BigOperators.Intervals
import Mathlib.Algebra.BigOperators.Ring.Finset
import Mathlib.Algebra.Order.Field.Rat
import Mathlib.Tactic.Ring
import Mathlib.Tactic.Linarith

namespace PhotVerif.Raster
open Finset

theorem list_range_sum (n : Nat) (f : Nat → Rat) : ((List.range n).map f).sum = ∑ i ∈ range n, f i := by
  induction n with
  | zero => simp
  | succ n ih => rw [List.range_succ, List.map_append, List.sum_append, ih, sum_range_succ]; simp

theorem raster_sum (ny nx : Nat) (h : Nat → Nat → Rat) :
    ∑ p ∈ range (ny * nx), h (p / nx) (p % nx) = ∑ y ∈ range ny, ∑ x ∈ range nx, h y x := by
  rcases Nat.eq_zero_or_pos nx with h0 | hpos
  · subst h0; simp
  induction ny with
  | zero => simp
  | succ n ih =>
    rw [Nat.succ_mul, sum_range_add, ih, sum_range_succ]
    congr 1
    apply sum_congr rfl
    intro x hx
    have hx' : x < nx := mem_range.mp hx
    have e1 : (n * nx + x) / nx = n := by
      rw [Nat.mul_comm, Nat.mul_add_div hpos, Nat.div_eq_of_lt hx']; rfl
    have e2 : (n * nx + x) % nx = x := by
      rw [Nat.mul_comm, Nat.mul_add_mod, Nat.mod_eq_of_lt hx']
    rw [e1, e2]

/-- a sum over 0..N of a function vanishing outside the window [d, d+n) is the sum over the window -/
theorem window_sum (N n d : Nat) (f : Nat → Rat) (hd : d + n ≤ N)
    (hz : ∀ i, i < N → (i < d ∨ d + n ≤ i) → f i = 0) :
    ∑ i ∈ range N, f i = ∑ i ∈ range n, f (d + i) := by
  have h1 : ∑ i ∈ range N, f i = ∑ i ∈ Ico d (d + n), f i := by
    symm
    apply sum_subset
    · intro i hi
      rw [mem_Ico] at hi
      exact mem_range.mpr (by omega)
    · intro i hi hni
      rw [mem_Ico] at hni
      exact hz i (mem_range.mp hi) (by omega)
  rw [h1, sum_Ico_eq_sum_range]
  simp

/-- value of the zero-padded embedding at canvas pixel (Y, X) -/
def embedAt (ny nx dy dx : Nat) (w : Nat → Rat) (Y X : Nat) : Rat :=
  if dy ≤ Y ∧ Y < dy + ny ∧ dx ≤ X ∧ X < dx + nx then w ((Y - dy) * nx + (X - dx)) else 0

/-- MAIN: any weighted raster sum over the canvas equals the same sum over the original frame with
    coordinates shifted by (dy, dx) -/
theorem embed_sum (ny nx NY NX dy dx : Nat) (hy : dy + ny ≤ NY) (hx : dx + nx ≤ NX) (hnx : 0 < nx)
    (w : Nat → Rat) (G : Nat → Nat → Rat) :
    ∑ P ∈ range (NY * NX), G (P / NX) (P % NX) * embedAt ny nx dy dx w (P / NX) (P % NX)
      = ∑ p ∈ range (ny * nx), G (p / nx + dy) (p % nx + dx) * w p := by
  rw [raster_sum NY NX (fun Y X => G Y X * embedAt ny nx dy dx w Y X)]
  rw [window_sum NY ny dy _ hy]
  · have inner : ∀ y, y < ny → ∑ X ∈ range NX, G (dy + y) X * embedAt ny nx dy dx w (dy + y) X
        = ∑ x ∈ range nx, G (dy + y) (dx + x) * w (y * nx + x) := by
      intro y hy'
      rw [window_sum NX nx dx _ hx]
      · apply sum_congr rfl
        intro x hx'
        have hx'' : x < nx := mem_range.mp hx'
        unfold embedAt
        rw [if_pos (by omega)]
        congr 2
        have : dy + y - dy = y := by omega
        have : dx + x - dx = x := by omega
        simp [*]
      · intro X _ hX
        unfold embedAt
        rw [if_neg (by omega)]; ring
    rw [sum_congr rfl (fun y hy' => inner y (mem_range.mp hy'))]
    rw [← raster_sum ny nx (fun y x => G (dy + y) (dx + x) * w (y * nx + x))]
    apply sum_congr rfl
    intro p _
    have : p / nx * nx + p % nx = p := Nat.div_add_mod' p nx
    rw [this, Nat.add_comm dy, Nat.add_comm dx]
  · intro Y _ hY
    apply sum_eq_zero
    intro X _
    unfold embedAt
    rw [if_neg (by omega)]; ring

/-- transposition: the raster sum over the transposed (nx × ny) array with x- and y-roles exchanged -/
theorem transpose_sum (ny nx : Nat) (w : Nat → Rat) (G : Nat → Nat → Rat) :
    ∑ P ∈ range (nx * ny), G (P / ny) (P % ny) * w ((P % ny) * nx + P / ny)
      = ∑ p ∈ range (ny * nx), G (p % nx) (p / nx) * w p := by
  rw [raster_sum nx ny (fun X Y => G X Y * w (Y * nx + X)), sum_comm,
    ← raster_sum ny nx (fun y x => G x y * w (y * nx + x))]
  apply sum_congr rfl
  intro p _
  have : p / nx * nx + p % nx = p := Nat.div_add_mod' p nx
  rw [this]

end PhotVerif.Raster
