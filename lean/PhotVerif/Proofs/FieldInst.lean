/-
  Instances that let the generated (scalar-generic) definitions be read over an
  ordered field with a floor function, and over ℝ.
-/
import PhotVerif.Model.Prelude
import Mathlib.Algebra.Order.Floor.Ring
import Mathlib.Algebra.Order.Field.Basic

namespace PhotVerif

instance (priority := 50) fieldFloorOps {α : Type} [Field α] [LinearOrder α] [IsStrictOrderedRing α]
    [FloorRing α] : FloorOps α := ⟨Int.floor, Int.ceil⟩

end PhotVerif
