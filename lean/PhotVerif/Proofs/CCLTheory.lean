/-
  Abstract theory of labelling by min-propagation on a finite symmetric graph (core Lean).
  A *sound fixpoint* assigns to every foreground vertex the least vertex of its component.
-/
import PhotVerif.Model.CCL
namespace PhotVerif.CCLTheory
open PhotVerif.Model.CCL

structure Graph where
  n : Nat
  fg : Nat → Bool
  nbrs : Nat → List Nat            -- foreground neighbours of a vertex
  nbrs_fg : ∀ p q, q ∈ nbrs p → fg q = true ∧ q < n
  nbrs_symm : ∀ p q, fg p = true → p < n → q ∈ nbrs p → p ∈ nbrs q

variable (G : Graph)

/-- reachability through foreground neighbours -/
inductive Reach : Nat → Nat → Prop
  | refl (p) : Reach p p
  | step {p q r} : Reach p q → r ∈ G.nbrs q → Reach p r

theorem Reach.trans {G : Graph} {a b c : Nat} (h1 : Reach G a b) (h2 : Reach G b c) : Reach G a c := by
  induction h2 with
  | refl => exact h1
  | step _ hr ih => exact Reach.step ih hr

theorem foldMin_le_init (v : Nat → Nat) (l : List Nat) : ∀ d, foldMin v d l ≤ d := by
  induction l with
  | nil => intro d; simp [foldMin]
  | cons a l ih =>
    intro d; simp only [foldMin, List.foldl_cons]
    exact Nat.le_trans (ih (min d (v a))) (Nat.min_le_left _ _)

theorem foldMin_le_mem (v : Nat → Nat) (l : List Nat) : ∀ d q, q ∈ l → foldMin v d l ≤ v q := by
  induction l with
  | nil => intro d q h; cases h
  | cons a l ih =>
    intro d q h
    simp only [foldMin, List.foldl_cons]
    rcases List.mem_cons.mp h with rfl | h
    · exact Nat.le_trans (foldMin_le_init v l _) (Nat.min_le_right _ _)
    · exact ih _ q h

theorem foldMin_eq (v : Nat → Nat) (l : List Nat) :
    ∀ d, foldMin v d l = d ∨ ∃ q ∈ l, foldMin v d l = v q := by
  induction l with
  | nil => intro d; left; simp [foldMin]
  | cons a l ih =>
    intro d
    simp only [foldMin, List.foldl_cons]
    rcases ih (min d (v a)) with h | ⟨q, hq, h⟩
    · rcases Nat.le_total d (v a) with hle | hle
      · left; simp only [foldMin] at h; rw [h, Nat.min_eq_left hle]
      · right; refine ⟨a, List.mem_cons_self, ?_⟩; simp only [foldMin] at h; rw [h, Nat.min_eq_right hle]
    · right; exact ⟨q, List.mem_cons_of_mem _ hq, h⟩

def IsFix (v : Nat → Nat) : Prop := ∀ p, p < G.n → newval G.fg G.nbrs v p = v p

/-- invariant: the value of a foreground vertex is a vertex reachable from it, not larger than it -/
def Sound (v : Nat → Nat) : Prop := ∀ p, p < G.n → G.fg p = true → Reach G p (v p) ∧ v p ≤ p

theorem sound_id : Sound G (fun p => p) := fun p _ _ => ⟨Reach.refl p, Nat.le_refl p⟩

theorem sound_step (v : Nat → Nat) (h : Sound G v) : Sound G (newval G.fg G.nbrs v) := by
  intro p hp hfg
  have ⟨hr, hle⟩ := h p hp hfg
  simp only [newval, hfg, if_true]
  rcases foldMin_eq v (G.nbrs p) (v p) with he | ⟨q, hq, he⟩
  · rw [he]; exact ⟨hr, hle⟩
  · rw [he]
    have ⟨hqfg, hqn⟩ := G.nbrs_fg p q hq
    have ⟨hrq, _⟩ := h q hqn hqfg
    refine ⟨Reach.trans (Reach.step (Reach.refl p) hq) hrq, ?_⟩
    rw [← he]; exact Nat.le_trans (foldMin_le_init v _ _) hle

theorem fix_adj_eq (v : Nat → Nat) (hfix : IsFix G v) (p q : Nat) (hp : p < G.n) (hfg : G.fg p = true)
    (hq : q ∈ G.nbrs p) : v p = v q := by
  have ⟨hqfg, hqn⟩ := G.nbrs_fg p q hq
  have hpq : p ∈ G.nbrs q := G.nbrs_symm p q hfg hp hq
  have h1 : v p ≤ v q := by
    have := hfix p hp; simp only [newval, hfg, if_true] at this
    rw [← this]; exact foldMin_le_mem v _ _ q hq
  have h2 : v q ≤ v p := by
    have := hfix q hqn; simp only [newval, hqfg, if_true] at this
    rw [← this]; exact foldMin_le_mem v _ _ p hpq
  exact Nat.le_antisymm h1 h2

theorem fix_reach_eq (v : Nat → Nat) (hfix : IsFix G v) (p : Nat) (hp : p < G.n) (hfg : G.fg p = true)
    (m : Nat) (hr : Reach G p m) : v p = v m ∧ m < G.n ∧ G.fg m = true := by
  induction hr with
  | refl => exact ⟨rfl, hp, hfg⟩
  | step _ hmem ih =>
    obtain ⟨he, hn, hf⟩ := ih
    have ⟨hf', hn'⟩ := G.nbrs_fg _ _ hmem
    exact ⟨he.trans (fix_adj_eq G v hfix _ _ hn hf hmem), hn', hf'⟩

theorem reach_symm (p : Nat) (hp : p < G.n) (hfg : G.fg p = true) (m : Nat) (hr : Reach G p m) :
    Reach G m p := by
  induction hr with
  | refl => exact Reach.refl _
  | @step q r hpq hmem ih =>
    have hq : q < G.n ∧ G.fg q = true := by
      cases hpq with
      | refl => exact ⟨hp, hfg⟩
      | step _ h' => have := G.nbrs_fg _ _ h'; exact ⟨this.2, this.1⟩
    have : q ∈ G.nbrs r := G.nbrs_symm q r hq.2 hq.1 hmem
    exact Reach.trans (Reach.step (Reach.refl r) this) ih

/-- at a sound fixpoint, the value is the least vertex of the component -/
theorem fix_value_is_min (v : Nat → Nat) (hfix : IsFix G v) (hs : Sound G v)
    (p : Nat) (hp : p < G.n) (hfg : G.fg p = true) :
    Reach G p (v p) ∧ ∀ m, Reach G p m → v p ≤ m := by
  refine ⟨(hs p hp hfg).1, fun m hr => ?_⟩
  obtain ⟨he, hn, hf⟩ := fix_reach_eq G v hfix p hp hfg m hr
  rw [he]; exact (hs m hn hf).2

/-- at a sound fixpoint, equal values characterise connectivity -/
theorem fix_same_value_iff_connected (v : Nat → Nat) (hfix : IsFix G v) (hs : Sound G v)
    (p q : Nat) (hp : p < G.n) (hq : q < G.n) (hfp : G.fg p = true) (hfq : G.fg q = true) :
    v p = v q ↔ Reach G p q := by
  constructor
  · intro h
    have h1 := (hs p hp hfp).1
    have h2 := (hs q hq hfq).1
    rw [← h] at h2
    exact Reach.trans h1 (reach_symm G q hq hfq _ h2)
  · intro h; exact (fix_reach_eq G v hfix p hp hfp q h).1

/-! potential -/
def pot (n : Nat) (v : Nat → Nat) : Nat := ((List.range n).map v).sum

theorem pot_le (n : Nat) (v w : Nat → Nat) (h : ∀ p, p < n → w p ≤ v p) : pot n w ≤ pot n v := by
  induction n with
  | zero => simp [pot]
  | succ n ih =>
    simp only [pot, List.range_succ, List.map_append, List.sum_append, List.map_cons, List.map_nil,
      List.sum_cons, List.sum_nil] at *
    have := ih (fun p hp => h p (Nat.lt_succ_of_lt hp))
    have := h n (Nat.lt_succ_self n)
    omega

theorem pot_lt (n : Nat) (v w : Nat → Nat) (h : ∀ p, p < n → w p ≤ v p)
    (k : Nat) (hk : k < n) (hlt : w k < v k) : pot n w < pot n v := by
  induction n with
  | zero => omega
  | succ n ih =>
    simp only [pot, List.range_succ, List.map_append, List.sum_append, List.map_cons, List.map_nil,
      List.sum_cons, List.sum_nil] at *
    have hle := pot_le n v w (fun p hp => h p (Nat.lt_succ_of_lt hp))
    simp only [pot] at hle
    have hn := h n (Nat.lt_succ_self n)
    by_cases hkn : k = n
    · subst hkn; omega
    · have := ih (fun p hp => h p (Nat.lt_succ_of_lt hp)) (by omega)
      omega

end PhotVerif.CCLTheory
