/-
  Theory of the generic lazy-object model: if the micro-step table is well-formed (W1, W2)
  then EVERY finite history of reads succeeds (no read fails because of what was read before).
-/
import PhotVerif.Model.Lazy
import Mathlib.Data.List.Basic
import Mathlib.Tactic.ByContra
namespace PhotVerif.LazyTheory
open PhotVerif.Model.Lazy

def W1 (steps : List Micro) : Prop :=
  ∀ pre r g post, steps = pre ++ Micro.drop r g :: post → Micro.use r ∉ post
def W2 (tbl : Nat → List Micro) : Prop :=
  ∀ k r g, Micro.drop r g ∈ tbl k → ∀ k', k' ≠ k → Micro.use r ∈ tbl k' → k' ∈ g

def LInv (tbl : Nat → List Micro) (s : St) : Prop :=
  ∀ r, s.avail r = false → ∀ k', Micro.use r ∈ tbl k' → s.cached k' = true

def InvDuring (tbl : Nat → List Micro) (k : Nat) (rest : List Micro) (s : St) : Prop :=
  ∀ r, s.avail r = false → ∀ k', Micro.use r ∈ tbl k' →
    (k' ≠ k ∧ s.cached k' = true) ∨ (k' = k ∧ Micro.use r ∉ rest)

theorem runSteps_ok (tbl : Nat → List Micro) (k : Nat) (hW2 : W2 tbl) (hW1 : W1 (tbl k)) :
    ∀ (rest pre : List Micro) (s : St), tbl k = pre ++ rest →
      InvDuring tbl k rest s →
      ∃ s', runSteps rest s = some s' ∧ s'.cached = s.cached ∧ InvDuring tbl k [] s' := by
  intro rest
  induction rest with
  | nil => intro pre s _ h; exact ⟨s, rfl, rfl, h⟩
  | cons m rest ih =>
    intro pre s hsplit hinv
    have hsplit' : tbl k = (pre ++ [m]) ++ rest := by simp [hsplit]
    cases m with
    | use r =>
      simp only [runSteps]
      have hav : s.avail r = true := by
        cases h : s.avail r with
        | true => rfl
        | false =>
          have hmem : Micro.use r ∈ tbl k := by rw [hsplit]; simp
          rcases hinv r h k hmem with ⟨hne, _⟩ | ⟨_, hn⟩
          · exact absurd rfl hne
          · exact absurd List.mem_cons_self hn
      rw [hav]; simp only [if_true]
      apply ih (pre ++ [Micro.use r]) s hsplit'
      intro r' h' k' hk'
      rcases hinv r' h' k' hk' with hc | ⟨he, hn⟩
      · exact Or.inl hc
      · exact Or.inr ⟨he, fun hm => hn (List.mem_cons_of_mem _ hm)⟩
    | drop r g =>
      simp only [runSteps]
      have hnouse : Micro.use r ∉ rest := hW1 pre r g rest hsplit
      by_cases hg : g.all s.cached = true
      · rw [if_pos hg]
        have := ih (pre ++ [Micro.drop r g]) { s with avail := upd s.avail r false } hsplit' (by
          intro r' h' k' hk'
          by_cases hrr : r' = r
          · subst hrr
            by_cases hk : k' = k
            · exact Or.inr ⟨hk, hnouse⟩
            · have hmemdrop : Micro.drop r' g ∈ tbl k := by rw [hsplit]; simp
              have hin : k' ∈ g := hW2 k r' g hmemdrop k' hk hk'
              have : s.cached k' = true := List.all_eq_true.mp hg k' hin
              exact Or.inl ⟨hk, this⟩
          · have h'' : s.avail r' = false := by
              simp only [upd, hrr, if_false] at h'; exact h'
            rcases hinv r' h'' k' hk' with hc | ⟨he, hn⟩
            · exact Or.inl hc
            · exact Or.inr ⟨he, fun hm => hn (List.mem_cons_of_mem _ hm)⟩)
        exact this
      · rw [if_neg hg]
        apply ih (pre ++ [Micro.drop r g]) s hsplit'
        intro r' h' k' hk'
        rcases hinv r' h' k' hk' with hc | ⟨he, hn⟩
        · exact Or.inl hc
        · exact Or.inr ⟨he, fun hm => hn (List.mem_cons_of_mem _ hm)⟩

theorem read_ok (tbl : Nat → List Micro) (hW2 : W2 tbl) (hW1 : ∀ k, W1 (tbl k))
    (k : Nat) (s : St) (hinv : LInv tbl s) :
    ∃ s', readKey tbl k s = some s' ∧ LInv tbl s' := by
  unfold readKey
  by_cases hc : s.cached k = true
  · rw [if_pos hc]; exact ⟨s, rfl, hinv⟩
  · rw [if_neg hc]
    have hcf : s.cached k = false := by cases h : s.cached k <;> simp_all
    obtain ⟨s', hrun, hcache, hd⟩ := runSteps_ok tbl k hW2 (hW1 k) (tbl k) [] s (by simp) (by
      intro r h k' hk'
      have := hinv r h k' hk'
      by_cases hk : k' = k
      · subst hk; rw [hcf] at this; cases this
      · exact Or.inl ⟨hk, this⟩)
    rw [hrun]
    refine ⟨_, rfl, ?_⟩
    intro r h k' hk'
    simp only [upd]
    by_cases hk : k' = k
    · simp [hk]
    · simp only [hk, if_false]
      rcases hd r h k' hk' with ⟨_, hc'⟩ | ⟨he, _⟩
      · exact hc'
      · exact absurd he hk

/-- every history of reads from a coherent state succeeds -/
theorem history_ok (tbl : Nat → List Micro) (hW2 : W2 tbl) (hW1 : ∀ k, W1 (tbl k)) :
    ∀ (hist : List Nat) (s : St) (i : Nat), LInv tbl s → runHistory tbl hist s i = none := by
  intro hist
  induction hist with
  | nil => intro s i _; rfl
  | cons k ks ih =>
    intro s i h
    obtain ⟨s1, h1, hi1⟩ := read_ok tbl hW2 hW1 k s h
    simp only [runHistory, h1]
    exact ih s1 (i + 1) hi1

theorem fresh_inv (tbl : Nat → List Micro) : LInv tbl fresh := by
  intro r h; simp [fresh] at h

/-! soundness of the boolean checkers -/

theorem w1b_sound (steps : List Micro) (h : w1b steps = true) : W1 steps := by
  induction steps with
  | nil => intro pre r g post hs; simp at hs
  | cons m steps ih =>
    intro pre r g post hs
    cases pre with
    | nil =>
      simp only [List.nil_append, List.cons.injEq] at hs
      obtain ⟨rfl, rfl⟩ := hs
      simp only [w1b, Bool.and_eq_true, Bool.not_eq_true'] at h
      have := h.1
      intro hm
      have hc : steps.contains (Micro.use r) = true := List.contains_iff_mem.mpr hm
      rw [this] at hc; cases hc
    | cons a pre =>
      simp only [List.cons_append, List.cons.injEq] at hs
      obtain ⟨hma, hs⟩ := hs
      have h' : w1b steps = true := by
        cases m with
        | use _ => simpa [w1b] using h
        | drop _ _ => simp only [w1b, Bool.and_eq_true] at h; exact h.2
      exact ih h' pre r g post hs

theorem w2b_sound (rows : List (List Micro)) (h : w2b rows = true) : W2 (tblOf rows) := by
  intro k r g hmem k' hne huse
  have hk : k < rows.length := by
    by_contra hk
    have : tblOf rows k = [] := by
      unfold tblOf; rw [List.getD_eq_getElem?_getD, List.getElem?_eq_none (by omega)]; rfl
    rw [this] at hmem; cases hmem
  have hk' : k' < rows.length := by
    by_contra hk'
    have : tblOf rows k' = [] := by
      unfold tblOf; rw [List.getD_eq_getElem?_getD, List.getElem?_eq_none (by omega)]; rfl
    rw [this] at huse; cases huse
  unfold w2b at h
  have h1 := List.all_eq_true.mp h k (List.mem_range.mpr hk)
  have h2 := List.all_eq_true.mp h1 (Micro.drop r g) hmem
  simp only at h2
  have h3 := List.all_eq_true.mp h2 k' (List.mem_range.mpr hk')
  simp only [Bool.or_eq_true, beq_iff_eq, Bool.not_eq_true', List.contains_iff_mem] at h3
  rcases h3 with (h3 | h3) | h3
  · exact absurd h3 hne
  · have hc : (rows.getD k' []).contains (Micro.use r) = true := List.contains_iff_mem.mpr huse
    rw [h3] at hc; cases hc
  · exact h3

/-- MAIN: a table accepted by the checkers admits no failing history of reads on a fresh object -/
theorem checked_table_never_fails (rows : List (List Micro)) (h1 : rows.all w1b = true) (h2 : w2b rows = true)
    (hist : List Nat) : runHistory (tblOf rows) hist fresh 0 = none := by
  apply history_ok (tblOf rows) (w2b_sound rows h2) _ hist fresh 0 (fresh_inv _)
  intro k
  by_cases hk : k < rows.length
  · have : tblOf rows k = rows[k] := by
      unfold tblOf; rw [List.getD_eq_getElem?_getD, List.getElem?_eq_getElem hk]; rfl
    rw [this]
    exact w1b_sound _ (List.all_eq_true.mp h1 _ (List.getElem_mem hk))
  · have : tblOf rows k = [] := by
      unfold tblOf; rw [List.getD_eq_getElem?_getD, List.getElem?_eq_none (by omega)]; rfl
    rw [this]; intro pre r g post hs; simp at hs

end PhotVerif.LazyTheory
