/-
  C04 — detect_sources is exact connected-component labelling.
  The executable model (Model/CCL.lean) is proved to compute, for every image shape,
  foreground set and connectivity, the partition into 4- or 8-connected components, named
  by minimum raster index, pruned by size and numbered 1..N in raster order.
-/
import PhotVerif.Proofs.CCLTheory
import Mathlib.Tactic.Linarith
import Mathlib.Data.List.Basic
import Mathlib.Data.List.Nodup
import PhotVerif.Gen.ForwardTable

namespace PhotVerif.C04
open PhotVerif.Model.CCL PhotVerif.CCLTheory

/-! ### the pixel grid is a finite symmetric graph -/

theorem offsets_neg (conn8 : Bool) (d : Int × Int) (h : d ∈ offsets conn8) :
    (-d.1, -d.2) ∈ offsets conn8 := by
  have key : (offsets conn8).all (fun d => (offsets conn8).contains (-d.1, -d.2)) = true := by
    cases conn8 <;> decide
  have := List.all_eq_true.mp key d h
  simpa using this

theorem idx_lt (ny nx y x : Nat) (hy : y < ny) (hx : x < nx) : y * nx + x < ny * nx := by
  have h := Nat.mul_le_mul_right nx (show y + 1 ≤ ny from hy)
  rw [Nat.add_mul] at h
  omega

theorem idx_div (nx y x : Nat) (hx : x < nx) : (y * nx + x) / nx = y := by
  have hpos : 0 < nx := by omega
  rw [Nat.add_comm, Nat.add_mul_div_right _ _ hpos, Nat.div_eq_of_lt hx]; simp

theorem idx_mod (nx y x : Nat) (hx : x < nx) : (y * nx + x) % nx = x := by
  rw [Nat.add_comm, Nat.add_mul_mod_self_right, Nat.mod_eq_of_lt hx]

theorem mem_nbrs (ny nx : Nat) (conn8 : Bool) (fg : Nat → Bool) (p q : Nat) :
    q ∈ nbrs ny nx conn8 fg p ↔ ∃ d ∈ offsets conn8,
      0 ≤ ((p / nx : Nat) : Int) + d.1 ∧ ((p / nx : Nat) : Int) + d.1 < ny ∧
      0 ≤ ((p % nx : Nat) : Int) + d.2 ∧ ((p % nx : Nat) : Int) + d.2 < nx ∧
      q = (((p / nx : Nat) : Int) + d.1).toNat * nx + (((p % nx : Nat) : Int) + d.2).toNat ∧
      fg q = true := by
  unfold nbrs
  simp only [List.mem_filterMap]
  constructor
  · rintro ⟨d, hd, h⟩
    split at h
    · rename_i hc
      simp only [Option.some.injEq] at h
      exact ⟨d, hd, hc.1, hc.2.1, hc.2.2.1, hc.2.2.2.1, h.symm, h ▸ hc.2.2.2.2⟩
    · simp at h
  · rintro ⟨d, hd, h1, h2, h3, h4, rfl, h6⟩
    refine ⟨d, hd, ?_⟩
    rw [if_pos ⟨h1, h2, h3, h4, h6⟩]

/-- the grid graph of an `ny × nx` image with foreground `fg` -/
def gridGraph (ny nx : Nat) (conn8 : Bool) (fg : Nat → Bool) : Graph where
  n := ny * nx
  fg := fg
  nbrs := nbrs ny nx conn8 fg
  nbrs_fg := by
    intro p q hq
    rw [mem_nbrs] at hq
    obtain ⟨d, _, h1, h2, h3, h4, rfl, h6⟩ := hq
    refine ⟨h6, idx_lt ny nx _ _ (by omega) (by omega)⟩
  nbrs_symm := by
    intro p q hfg hp hq
    rw [mem_nbrs] at hq
    obtain ⟨d, hd, h1, h2, h3, h4, hqe, h6⟩ := hq
    have hnx : 0 < nx := by
      rcases Nat.eq_zero_or_pos nx with h | h
      · subst h; simp at hp
      · exact h
    have hpy : p / nx < ny := Nat.div_lt_of_lt_mul (by rw [Nat.mul_comm]; exact hp)
    have hpx : p % nx < nx := Nat.mod_lt _ hnx
    have hdm : p / nx * nx + p % nx = p := Nat.div_add_mod' p nx
    generalize p / nx = py at *
    generalize p % nx = px at *
    have hx : (((px : Nat) : Int) + d.2).toNat < nx := by omega
    have hqd : q / nx = (((py : Nat) : Int) + d.1).toNat := by rw [hqe]; exact idx_div nx _ _ hx
    have hqm : q % nx = (((px : Nat) : Int) + d.2).toNat := by rw [hqe]; exact idx_mod nx _ _ hx
    rw [mem_nbrs]
    refine ⟨(-d.1, -d.2), offsets_neg conn8 d hd, ?_, ?_, ?_, ?_, ?_, hfg⟩
    · rw [hqd]; simp only; omega
    · rw [hqd]; simp only; omega
    · rw [hqm]; simp only; omega
    · rw [hqm]; simp only; omega
    · rw [hqd, hqm]
      simp only
      have e1 : ((((((py : Nat) : Int) + d.1).toNat : Nat) : Int) + -d.1).toNat = py := by omega
      have e2 : ((((((px : Nat) : Int) + d.2).toNat : Nat) : Int) + -d.2).toNat = px := by omega
      rw [e1, e2]
      exact hdm.symm

/-! ### the iteration reaches a sound fixpoint -/

theorem F_step (n : Nat) (fg : Nat → Bool) (nb : Nat → List Nat) (v : Array Nat) (p : Nat) (hp : p < n) :
    F (step n fg nb v) p = newval fg nb (F v) p := by
  have : (step n fg nb v).getD p 0 = newval fg nb (F v) p := by
    unfold step; simp [Array.getD, hp]
  exact this

theorem size_step (n : Nat) (fg : Nat → Bool) (nb : Nat → List Nat) (v : Array Nat) :
    (step n fg nb v).size = n := by
  unfold step; simp

theorem step_le (n : Nat) (fg : Nat → Bool) (nb : Nat → List Nat) (v : Array Nat) (p : Nat) (hp : p < n) :
    F (step n fg nb v) p ≤ F v p := by
  rw [F_step n fg nb v p hp]
  unfold newval
  split
  · exact foldMin_le_init _ _ _
  · exact Nat.le_refl _

theorem step_ne_strict (n : Nat) (fg : Nat → Bool) (nb : Nat → List Nat) (v : Array Nat)
    (hs : v.size = n) (hne : step n fg nb v ≠ v) : ∃ p, p < n ∧ F (step n fg nb v) p < F v p := by
  by_contra hcon
  apply hne
  apply Array.ext
  · rw [size_step, hs]
  · intro i h1 h2
    have hi : i < n := by rw [size_step] at h1; exact h1
    have hle := step_le n fg nb v i hi
    have hge : ¬ F (step n fg nb v) i < F v i := fun h => hcon ⟨i, hi, h⟩
    have heq : F (step n fg nb v) i = F v i := by omega
    unfold F at heq
    simpa [Array.getD, h1, h2] using heq

variable (G : Graph)

theorem run_spec : ∀ (fuel : Nat) (v : Array Nat), v.size = G.n → Sound G (F v) →
    pot G.n (F v) < fuel →
    let r := run G.n G.fg G.nbrs fuel v
    r.size = G.n ∧ Sound G (F r) ∧ IsFix G (F r) := by
  intro fuel
  induction fuel with
  | zero => intro v _ _ h; omega
  | succ fuel ih =>
    intro v hs hsound hpot
    simp only [run]
    by_cases heq : step G.n G.fg G.nbrs v = v
    · rw [if_pos heq]
      refine ⟨hs, hsound, ?_⟩
      intro p hp
      rw [← F_step G.n G.fg G.nbrs v p hp, heq]
    · rw [if_neg heq]
      have hsound' : Sound G (F (step G.n G.fg G.nbrs v)) := by
        intro p hp hfg
        have := sound_step G (F v) hsound p hp hfg
        rw [F_step G.n G.fg G.nbrs v p hp]
        exact this
      obtain ⟨k, hk, hlt⟩ := step_ne_strict G.n G.fg G.nbrs v hs heq
      have hdec := pot_lt G.n (F v) (F (step G.n G.fg G.nbrs v))
        (fun p hp => step_le G.n G.fg G.nbrs v p hp) k hk hlt
      exact ih _ (size_step _ _ _ _) hsound' (by omega)

theorem F_range (n p : Nat) (hp : p < n) : F (Array.range n) p = p := by
  unfold F; simp [Array.getD, hp]

theorem pot_range (n : Nat) : pot n (F (Array.range n)) = (List.range n).sum := by
  unfold pot
  congr 1
  conv => rhs; rw [← List.map_id (List.range n)]
  apply List.map_congr_left
  intro p hp
  simp only [List.mem_range] at hp
  simp [F_range n p hp]

/-- MAIN (1): the table computed by `components` is a sound fixpoint of min-propagation -/
theorem components_sound_fix (ny nx : Nat) (conn8 : Bool) (fg : Nat → Bool) :
    let G := gridGraph ny nx conn8 fg
    let v := components ny nx conn8 fg
    v.size = ny * nx ∧ Sound G (F v) ∧ IsFix G (F v) := by
  intro G v
  have hsound0 : Sound G (F (Array.range (ny * nx))) := by
    intro p hp hfg
    have : F (Array.range (ny * nx)) p = p := F_range _ _ hp
    rw [this]; exact ⟨Reach.refl p, Nat.le_refl p⟩
  have := run_spec G ((List.range (ny * nx)).sum + 1) (Array.range (ny * nx)) (by simp [G, gridGraph])
    hsound0 (by
      have := pot_range (ny * nx)
      show pot (ny * nx) _ < _
      omega)
  exact this

/-- MAIN (2): two foreground pixels get the same value iff they are connected through
    foreground 4- or 8-neighbours; the value is the smallest raster index of the component. -/
theorem components_partition (ny nx : Nat) (conn8 : Bool) (fg : Nat → Bool) (p q : Nat)
    (hp : p < ny * nx) (hq : q < ny * nx) (hfp : fg p = true) (hfq : fg q = true) :
    let G := gridGraph ny nx conn8 fg
    let v := components ny nx conn8 fg
    (F v p = F v q ↔ Reach G p q) ∧ Reach G p (F v p) ∧ (∀ m, Reach G p m → F v p ≤ m) := by
  intro G v
  obtain ⟨_, hs, hf⟩ := components_sound_fix ny nx conn8 fg
  exact ⟨fix_same_value_iff_connected G (F v) hf hs p q hp hq hfp hfq,
         fix_value_is_min G (F v) hf hs p hp hfp⟩

/-! ### pruning and numbering -/

section labelling
variable (n : Nat) (fg : Nat → Bool) (v : Array Nat) (npix : Nat)

theorem mem_roots (r : Nat) : r ∈ roots n fg v ↔ r < n ∧ fg r = true ∧ F v r = r := by
  unfold roots; simp [List.mem_filter]

theorem mem_kept (r : Nat) :
    r ∈ kept n fg v npix ↔ (r < n ∧ fg r = true ∧ F v r = r) ∧ npix ≤ compSize n fg v r := by
  unfold kept; simp [List.mem_filter, mem_roots]

theorem kept_nodup : (kept n fg v npix).Nodup := by
  unfold kept roots
  exact (List.nodup_range.filter _).filter _

/-- surviving roots are listed in increasing raster order -/
theorem kept_sorted : (kept n fg v npix).Pairwise (· < ·) := by
  unfold kept roots
  exact (List.pairwise_lt_range.filter _).filter _

/-- a pixel is labelled (non-zero) iff it is foreground and its component has ≥ npixels pixels -/
theorem label_ne_zero_iff (p : Nat) :
    label fg v (kept n fg v npix) p ≠ 0 ↔ fg p = true ∧ F v p ∈ kept n fg v npix := by
  unfold label
  by_cases h : (fg p && (kept n fg v npix).contains (F v p)) = true
  · rw [if_pos h]; simp only [Bool.and_eq_true, List.contains_iff_mem] at h; simpa using h
  · rw [if_neg h]; simp only [Bool.and_eq_true, List.contains_iff_mem] at h; simpa using h

/-- labelled pixels carry equal labels iff their component roots coincide -/
theorem label_eq_iff (p q : Nat) (hp : fg p = true) (hq : fg q = true)
    (hkp : F v p ∈ kept n fg v npix) (hkq : F v q ∈ kept n fg v npix) :
    label fg v (kept n fg v npix) p = label fg v (kept n fg v npix) q ↔ F v p = F v q := by
  unfold label
  simp only [hp, hq, Bool.true_and, List.contains_iff_mem, hkp, hkq, decide_true, if_true,
    Nat.add_right_cancel_iff]
  exact List.idxOf_inj hkp

/-- labels never exceed the number N of surviving components … -/
theorem label_le (p : Nat) : label fg v (kept n fg v npix) p ≤ (kept n fg v npix).length := by
  unfold label
  split
  · rename_i h
    simp only [Bool.and_eq_true, List.contains_iff_mem] at h
    have := List.idxOf_lt_length_iff.mpr h.2
    omega
  · omega

/-- … and every label 1..N is used: the i-th surviving root carries label i+1 (no gaps) -/
theorem label_root (i : Nat) (hi : i < (kept n fg v npix).length) :
    label fg v (kept n fg v npix) ((kept n fg v npix)[i]) = i + 1 := by
  have hm : (kept n fg v npix)[i] ∈ kept n fg v npix := List.getElem_mem hi
  have hr := (mem_kept n fg v npix _).mp hm
  unfold label
  rw [hr.1.2.2]
  simp only [hr.1.2.1, Bool.true_and, List.contains_iff_mem, hm, decide_true, if_true]
  rw [(kept_nodup n fg v npix).idxOf_getElem]

/-- raster order: a smaller label belongs to the component whose first pixel comes first -/
theorem label_order (i j : Nat) (hij : i < j) (hj : j < (kept n fg v npix).length) :
    (kept n fg v npix)[i] < (kept n fg v npix)[j] :=
  List.pairwise_iff_getElem.mp (kept_sorted n fg v npix) i j (by omega) hj hij

end labelling

/-- the number a root's component is pruned by is its true pixel count -/
theorem compSize_counts_component (ny nx : Nat) (conn8 : Bool) (fg : Nat → Bool) (p q : Nat)
    (hp : p < ny * nx) (hq : q < ny * nx) (hfp : fg p = true) :
    let G := gridGraph ny nx conn8 fg
    let v := components ny nx conn8 fg
    ((fg q && F v q == F v p) = true ↔ fg q = true ∧ Reach G p q) := by
  intro G v
  constructor
  · intro h
    simp only [Bool.and_eq_true, beq_iff_eq] at h
    exact ⟨h.1, ((components_partition ny nx conn8 fg p q hp hq hfp h.1).1).mp h.2.symm⟩
  · rintro ⟨hfq, hr⟩
    simp only [Bool.and_eq_true, beq_iff_eq]
    exact ⟨hfq, (((components_partition ny nx conn8 fg p q hp hq hfp hfq).1).mpr hr).symm⟩

/-- `None` is returned iff no component reaches `npixels` -/
theorem detect_none_iff (ny nx : Nat) (conn8 : Bool) (fg : Nat → Bool) (npix : Nat) :
    detect ny nx conn8 fg npix = none ↔
      kept (ny * nx) fg (components ny nx conn8 fg) npix = [] := by
  unfold detect
  simp only
  split
  · rename_i h; simp [List.isEmpty_iff] at h; simp [h]
  · rename_i h; simp [List.isEmpty_iff] at h; simp [h]

/-- shape of a successful detection: the label image is `label` applied to every pixel, N = #survivors -/
theorem detect_some_spec (ny nx : Nat) (conn8 : Bool) (fg : Nat → Bool) (npix : Nat) (d : Detection)
    (h : detect ny nx conn8 fg npix = some d) :
    d.nlabels = (kept (ny * nx) fg (components ny nx conn8 fg) npix).length ∧
    d.data = (List.range (ny * nx)).map
      (label fg (components ny nx conn8 fg) (kept (ny * nx) fg (components ny nx conn8 fg) npix)) ∧
    d.areas = (kept (ny * nx) fg (components ny nx conn8 fg) npix).map
      (compSize (ny * nx) fg (components ny nx conn8 fg)) := by
  unfold detect at h
  simp only at h
  split at h
  · simp at h
  · simp only [Option.some.injEq] at h
    subst h
    exact ⟨rfl, rfl, rfl⟩

/-- NaN pixels and masked pixels are never foreground (hence never in a segment) -/
theorem foreground_excludes (data thr : Nat → PhotVerif.Model.V) (mask : Nat → Bool) (p : Nat)
    (h : mask p = true ∨ data p = .nan ∨ thr p = .nan) : foreground data thr mask p = false := by
  unfold foreground
  rcases h with h | h | h
  · simp [h]
  · rw [h]; cases thr p <;> simp [PhotVerif.Model.V.lt]
  · rw [h]; simp [PhotVerif.Model.V.lt]

/-- strictness: a pixel exactly at the threshold is not foreground -/
theorem foreground_strict (data thr : Nat → PhotVerif.Model.V) (mask : Nat → Bool) (p : Nat) (a : Rat)
    (hd : data p = .fin a) (ht : thr p = .fin a) : foreground data thr mask p = false := by
  unfold foreground
  rw [hd, ht]; simp [PhotVerif.Model.V.lt]

-- non-vacuity: 3×5 image, two 8-connected components + an isolated pixel, npixels = 2
example : (detect 3 5 true (fun p => [1,1,0,0,1, 0,0,0,1,1, 1,0,1,0,0].getD p 0 == 1) 2).map (·.data)
    = some [1,1,0,0,2, 0,0,0,2,2, 0,0,2,0,0] := by decide +kernel

/-! ### no delegating call in this property's modules drops an argument it holds (table regenerated from the source) -/

/-- TABLE OBLIGATION: in the modules of this property, every call that delegates to another photutils function, method or
    constructor passes on each value the caller holds under the callee's own parameter name (its own parameters, `self.<name>`
    attributes set in `__init__`) - dropped `subpixels`, `mask`, `connectivity`, `include_localbkg` ... keywords were a recurring
    kind of seeded change -/
theorem no_dropped_arguments : Gen.ForwardTable.droppedIn Gen.ForwardTable.scopeC04 = [] := by decide

end PhotVerif.C04
