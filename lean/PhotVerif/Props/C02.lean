/-
  C02 — aperture sums are mask-weighted sums over exactly the unmasked, positive-weight,
  in-image pixels.  All statements hold for an arbitrary weight map `w` (so for every
  aperture type and method).
-/
import PhotVerif.Model.ApSum
import PhotVerif.Props.C01
import Mathlib.Algebra.BigOperators.Group.List.Basic
import Mathlib.Algebra.Order.Field.Rat
import Mathlib.Tactic.Ring
import Mathlib.Tactic.Linarith
import PhotVerif.Gen.ForwardTable

namespace PhotVerif.C02
open PhotVerif PhotVerif.Gen PhotVerif.Model PhotVerif.C01

theorem mem_overlapPixels (ly lx sy sx : Slc) (y x j i : Int) :
    (y, x, j, i) ∈ overlapPixels ly lx sy sx ↔
      (ly.start ≤ y ∧ y < ly.stop ∧ lx.start ≤ x ∧ x < lx.stop ∧
        j = sy.start + (y - ly.start) ∧ i = sx.start + (x - lx.start)) := by
  unfold overlapPixels
  simp only [List.mem_flatMap, List.mem_range, List.mem_map, Prod.mk.injEq]
  constructor
  · rintro ⟨dj, hdj, di, hdi, rfl, rfl, rfl, rfl⟩
    omega
  · rintro ⟨h1, h2, h3, h4, rfl, rfl⟩
    exact ⟨(y - ly.start).toNat, by omega, (x - lx.start).toNat, by omega, by omega, by omega,
      by omega, by omega⟩

/-- the good pixels are exactly: in the box, in the image, weight > 0, not masked -/
theorem goodPixels_spec (b : BBox) (w : Int → Int → Rat) (ny nx : Int) (mask : Int → Int → Bool)
    (px : List (Int × Int × Rat)) (h : goodPixels b w ny nx mask = .ok (some px)) (y x : Int) (wt : Rat) :
    (y, x, wt) ∈ px ↔ (inBox b y x ∧ inImg ny nx y x ∧ wt = w (y - b.iymin) (x - b.ixmin) ∧
      wt > 0 ∧ mask y x = false) := by
  unfold goodPixels at h
  split at h
  · simp at h
  · simp at h
  · rename_i ly lx sy sx heq
    simp only [Except.ok.injEq, Option.some.injEq] at h
    subst h
    have hx := overlap_some_exact b ny nx (ly, lx) (sy, sx) heq y x
    have hr := overlap_small_rebased b ny nx (ly, lx) (sy, sx) heq
    unfold inSl at hx
    simp only at hx hr
    simp only [List.mem_filterMap]
    constructor
    · rintro ⟨⟨y', x', j, i⟩, hm, hsel⟩
      rw [mem_overlapPixels] at hm
      simp only at hsel
      split at hsel
      · rename_i hc
        simp only [Option.some.injEq, Prod.mk.injEq] at hsel
        obtain ⟨rfl, rfl, rfl⟩ := hsel
        obtain ⟨h1, h2, h3, h4, rfl, rfl⟩ := hm
        have hb := hx.1.mp ⟨h1, h2, h3, h4⟩
        refine ⟨hb.1, hb.2, ?_, hc.1, hc.2⟩
        congr 1 <;> omega
      · simp at hsel
    · rintro ⟨hb, hi, rfl, hpos, hm⟩
      have hl := hx.1.mpr ⟨hb, hi⟩
      refine ⟨(y, x, sy.start + (y - ly.start), sx.start + (x - lx.start)), ?_, ?_⟩
      · rw [mem_overlapPixels]; exact ⟨hl.1, hl.2.1, hl.2.2.1, hl.2.2.2, rfl, rfl⟩
      · have e1 : sy.start + (y - ly.start) = y - b.iymin := by omega
        have e2 : sx.start + (x - lx.start) = x - b.ixmin := by omega
        simp only [e1, e2, hpos, hm, and_self, if_true]

/-- NaN is returned exactly when the aperture's box misses the image -/
theorem apSum_none_iff {β : Type} [Add β] [OfNat β 0] (smul : Rat → β → β) (b : BBox)
    (w : Int → Int → Rat) (ny nx : Int) (data : Int → Int → β) (mask : Int → Int → Bool) :
    apSum smul b w ny nx data mask = .ok none ↔ BBox.getOverlapSlices b (ny, nx) = .ok none := by
  unfold apSum goodPixels
  split <;> simp_all
  all_goals (split at * <;> simp_all)

theorem apSum_nan_iff_no_common_pixel {β : Type} [Add β] [OfNat β 0] (smul : Rat → β → β) (b : BBox)
    (w : Int → Int → Rat) (ny nx : Int) (data : Int → Int → β) (mask : Int → Int → Bool)
    (hx : b.ixmin < b.ixmax) (hy : b.iymin < b.iymax) (hny : 0 < ny) (hnx : 0 < nx) :
    apSum smul b w ny nx data mask = .ok none ↔ ¬ ∃ y x, inBox b y x ∧ inImg ny nx y x := by
  rw [apSum_none_iff, overlap_none_iff b ny nx hx hy hny hnx]

/-- independence of values stored in masked / zero-weight / out-of-aperture pixels -/
theorem wsum_blind {β : Type} [Add β] [OfNat β 0] (smul : Rat → β → β) (f g : Int → Int → β)
    (px : List (Int × Int × Rat)) (h : ∀ p ∈ px, f p.1 p.2.1 = g p.1 p.2.1) :
    wsum smul f px = wsum smul g px := by
  unfold wsum
  congr 1
  apply List.map_congr_left
  intro p hp
  obtain ⟨y, x, wt⟩ := p
  simp only
  rw [h (y, x, wt) hp]

/-- two images that agree on the good pixels give the same aperture sum (in particular a NaN
    under a masked or zero-weight pixel does not propagate) -/
theorem apSum_blind {β : Type} [Add β] [OfNat β 0] (smul : Rat → β → β) (b : BBox)
    (w : Int → Int → Rat) (ny nx : Int) (f g : Int → Int → β) (mask : Int → Int → Bool)
    (h : ∀ y x, inBox b y x → inImg ny nx y x → w (y - b.iymin) (x - b.ixmin) > 0 → mask y x = false →
      f y x = g y x) :
    apSum smul b w ny nx f mask = apSum smul b w ny nx g mask := by
  unfold apSum
  cases hg : goodPixels b w ny nx mask with
  | error e => rfl
  | ok o =>
    cases o with
    | none => rfl
    | some px =>
      simp only
      congr 2
      apply wsum_blind
      rintro ⟨y, x, wt⟩ hp
      have := (goodPixels_spec b w ny nx mask px hg y x wt).mp hp
      obtain ⟨hb, hi, rfl, hpos, hm⟩ := this
      exact h y x hb hi hpos hm

/-- over the rationals the weighted sum is the plain finite sum `Σ w·data` … -/
theorem wsum_eq_sum (f : Int → Int → Rat) (px : List (Int × Int × Rat)) :
    wsum (· * ·) f px = (px.map fun p => p.2.2 * f p.1 p.2.1).sum := by
  unfold wsum
  rw [List.sum_eq_foldl]

/-- … hence linear in the data -/
theorem wsum_linear (a : Rat) (f g : Int → Int → Rat) (px : List (Int × Int × Rat)) :
    wsum (· * ·) (fun y x => a * f y x + g y x) px = a * wsum (· * ·) f px + wsum (· * ·) g px := by
  simp only [wsum_eq_sum]
  induction px with
  | nil => simp
  | cons p px ih =>
    simp only [List.map_cons, List.sum_cons, ih]
    ring

/-- `area_overlap` = Σ w over the same good pixels whenever no weight is negative -/
theorem areaOverlap_eq_good_weight_sum (b : BBox) (w : Int → Int → Rat) (ny nx : Int)
    (mask : Int → Int → Bool) (hw : ∀ j i, 0 ≤ w j i) :
    areaOverlap b w ny nx mask =
      (match goodPixels b w ny nx mask with
       | .error e => .error e
       | .ok none => .ok none
       | .ok (some px) => .ok (some (px.map fun p => p.2.2).sum)) := by
  unfold areaOverlap goodPixels
  split
  · rfl
  · rfl
  · rename_i ly lx sy sx heq
    simp only
    congr 2
    rw [← List.sum_eq_foldl]
    generalize overlapPixels ly lx sy sx = l
    induction l with
    | nil => simp
    | cons p l ih =>
      obtain ⟨y, x, j, i⟩ := p
      simp only [List.map_cons, List.sum_cons, List.filterMap_cons, ih]
      by_cases hm : mask y x = true
      · simp [hm]
      · have hm' : mask y x = false := by simpa using hm
        by_cases hp : w j i > 0
        · simp [hm', hp]
        · have : w j i = 0 := le_antisymm (not_lt.mp hp) (hw j i)
          simp [hm', this]

-- non-vacuity: 2×2 box straddling the corner of a 3×3 image, one masked pixel
example : apSum (· * ·) ⟨-1, 1, -1, 1⟩ (fun _ _ => (1/2 : Rat)) 3 3 (fun y x => (y + 2 * x + 5 : Rat))
    (fun _ _ => false) = .ok (some (5/2)) := by decide +kernel

/-! ### no delegating call in this property's modules drops an argument it holds (table regenerated from the source) -/

/-- TABLE OBLIGATION: in the modules of this property, every call that delegates to another photutils function, method or
    constructor passes on each value the caller holds under the callee's own parameter name (its own parameters, `self.<name>`
    attributes set in `__init__`) - dropped `subpixels`, `mask`, `connectivity`, `include_localbkg` ... keywords were a recurring
    kind of seeded change -/
theorem no_dropped_arguments : Gen.ForwardTable.droppedIn Gen.ForwardTable.scopeC02 = [] := by decide

end PhotVerif.C02
