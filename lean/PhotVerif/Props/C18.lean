/-
  C18 — rendered model images are the exact superposition of their sources.
-/
import PhotVerif.Model.Render
import Mathlib.Algebra.Order.Field.Rat
import Mathlib.Algebra.Order.Floor.Ring
import Mathlib.Algebra.BigOperators.Group.List.Basic
import Mathlib.Data.List.Perm.Basic
import Mathlib.Tactic.Ring
import Mathlib.Tactic.Linarith
import PhotVerif.Gen.ForwardTable

namespace PhotVerif.C18
open PhotVerif.Model.Render PhotVerif.Gen.RenderTable

theorem render_foldl (ny nx : Nat) (rows : List Row) :
    ∀ (img : Nat → Nat → Rat) (y x : Nat),
      (rows.foldl (fun img r => fun y x => img y x + contrib ny nx r y x) img) y x
        = img y x + (rows.map fun r => contrib ny nx r y x).sum := by
  induction rows with
  | nil => intro img y x; simp
  | cons r rows ih =>
    intro img y x
    simp only [List.foldl_cons, List.map_cons, List.sum_cons]
    rw [ih]; ring

/-- MAIN: every pixel of the rendered image is the sum over the table rows of (model value + local background)
    on that row's clipped window, and 0 from rows whose window does not contain the pixel -/
theorem render_is_sum (ny nx : Nat) (rows : List Row) (y x : Nat) :
    render ny nx rows y x = (rows.map fun r => contrib ny nx r y x).sum := by
  unfold render; rw [render_foldl]; simp

/-- invariance under any reordering of the table rows (exact arithmetic) -/
theorem render_perm_invariant (ny nx : Nat) (r1 r2 : List Row) (h : r1.Perm r2) (y x : Nat) :
    render ny nx r1 y x = render ny nx r2 y x := by
  rw [render_is_sum, render_is_sum]
  exact (h.map _).sum_eq

/-- additivity over table concatenation -/
theorem render_concat_additive (ny nx : Nat) (r1 r2 : List Row) (y x : Nat) :
    render ny nx (r1 ++ r2) y x = render ny nx r1 y x + render ny nx r2 y x := by
  simp only [render_is_sum, List.map_append, List.sum_append]

/-- rows that do not overlap the image contribute nothing -/
theorem render_skips_offimage (ny nx : Nat) (r : Row) (rows : List Row) (h : window ny nx r = none) (y x : Nat) :
    render ny nx (r :: rows) y x = render ny nx rows y x := by
  simp only [render_is_sum, List.map_cons, List.sum_cons]
  have : contrib ny nx r y x = 0 := by unfold contrib; rw [h]
  rw [this]; ring

/-- the window on one axis is exactly the part of `[ceil(pos − s/2), ceil(pos − s/2) + s)` inside the image -/
theorem window1_spec (large small : Nat) (pos : Rat) (a b : Nat) (h : window1 large small pos = some (a, b)) (k : Nat) :
    (a ≤ k ∧ k < b) ↔ ((k : Int) < large ∧ (pos - (small : Rat) / 2).ceil ≤ (k : Int) ∧
      (k : Int) < (pos - (small : Rat) / 2).ceil + small) := by
  unfold window1 at h
  simp only at h
  split at h
  · simp at h
  · rename_i hc
    simp only [Option.some.injEq, Prod.mk.injEq] at h
    obtain ⟨rfl, rfl⟩ := h
    generalize (pos - (small : Rat) / 2).ceil = c at *
    omega

/-- no window (row skipped) iff the interval misses the image -/
theorem window1_none_iff (large small : Nat) (pos : Rat) (hs : small ≠ 0) :
    window1 large small pos = none ↔
      ((pos - (small : Rat) / 2).ceil + small ≤ 0 ∨ (pos - (small : Rat) / 2).ceil ≥ large) := by
  unfold window1
  simp only
  generalize (pos - (small : Rat) / 2).ceil = c
  constructor
  · intro h
    split at h
    · rename_i hc; omega
    · simp at h
  · intro h
    rw [if_pos (by omega)]

/-- units: for the skeleton extracted from the source, a table of unit-ful rows gives a unit-ful image whichever rows overlap
    the image (even none), and a table of unit-less rows never does -/
theorem units_regardless_of_overlap (ny nx : Nat) (rows : List Row) (hne : rows ≠ []) (hu : ∀ r ∈ rows, r.hasUnit = true) :
    outputHasUnit ny nx rows = true := by
  unfold outputHasUnit
  have ha : attachesUnitAfterLoop = true := by decide
  have hl : (rows.getLast?.map (·.hasUnit)).getD false = true := by
    rw [List.getLast?_eq_some_getLast hne]
    simp [hu _ (List.getLast_mem hne)]
  simp [ha, hl]

theorem no_units_without_unitful_rows (ny nx : Nat) (rows : List Row) (hu : ∀ r ∈ rows, r.hasUnit = false) :
    outputHasUnit ny nx rows = false := by
  unfold outputHasUnit
  have hf : unitsDependOnRowIndex = false := by decide
  have h1 : (rows.any fun r => (window ny nx r).isSome && r.hasUnit) = false := by
    rw [List.any_eq_false]; intro r hr; simp [hu r hr]
  have h2 : (rows.getLast?.map (·.hasUnit)).getD false = false := by
    cases hgl : rows.getLast? with
    | none => rfl
    | some r => simp [hu r (List.mem_of_getLast? hgl)]
  simp [hf, h1, h2]

/-- hence the flag does not depend on the row order when the rows agree on being unit-ful (one model renders them all) -/
theorem units_independent_of_row_order (ny nx : Nat) (r1 r2 : List Row) (h : r1.Perm r2) (b : Bool)
    (hb : ∀ r ∈ r1, r.hasUnit = b) : outputHasUnit ny nx r1 = outputHasUnit ny nx r2 := by
  have hb2 : ∀ r ∈ r2, r.hasUnit = b := fun r hr => hb r (h.mem_iff.mpr hr)
  cases b with
  | false => rw [no_units_without_unitful_rows ny nx r1 hb, no_units_without_unitful_rows ny nx r2 hb2]
  | true =>
    by_cases hne : r1 = []
    · subst hne; rw [List.nil_perm.mp h]
    · have hne2 : r2 ≠ [] := fun h2 => hne (by subst h2; exact List.perm_nil.mp h)
      rw [units_regardless_of_overlap ny nx r1 hne hb, units_regardless_of_overlap ny nx r2 hne2 hb2]

/-- a residual image is exactly data minus the model image -/
theorem residual_is_data_minus_model (data : Nat → Nat → Rat) (ny nx : Nat) (rows : List Row) (y x : Nat) :
    residual data ny nx rows y x + render ny nx rows y x = data y x := by
  unfold residual; ring

/-- the loop skeleton has the expected shape: accumulates stamp + local background, skips NoOverlapError rows,
    trims windows to the image and works on a copy of the input model -/
theorem loop_skeleton : accumulatesStampPlusBkg = true ∧ skipsNoOverlap = true ∧ usesTrimMode = true ∧ modelCopied = true := by
  decide

-- non-vacuity: a 5-wide stamp centred at x = 1 on a 4-pixel axis covers pixels 0..3 (window [0,4))
example : window1 4 5 1 = some (0, 4) := by decide +kernel
example : window1 4 3 (-5/2) = none := by decide +kernel

/-! ### no delegating call in this property's modules drops an argument it holds (table regenerated from the source) -/

/-- TABLE OBLIGATION: in the modules of this property, every call that delegates to another photutils function, method or
    constructor passes on each value the caller holds under the callee's own parameter name (its own parameters, `self.<name>`
    attributes set in `__init__`) - dropped `subpixels`, `mask`, `connectivity`, `include_localbkg` ... keywords were a recurring
    kind of seeded change -/
theorem no_dropped_arguments : Gen.ForwardTable.droppedIn Gen.ForwardTable.scopeC18 = [] := by decide

end PhotVerif.C18
