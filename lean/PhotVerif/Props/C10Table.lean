/-
  C10 — the analysis accepts every effect program regenerated from the current source, hence (by soundness)
  no execution of any of them writes to a caller-supplied buffer.
-/
import PhotVerif.Props.C10
import PhotVerif.Gen.EffectsTable

namespace PhotVerif.C10
open PhotVerif.Model.Effects PhotVerif.Gen.EffectsTable

/-- every public function / class in scope is accepted by the may-alias analysis (evaluated by the kernel) -/
theorem all_extracted_safe : units.all (fun u => safe fuel u.k u.nv u.prog) = true := by decide +kernel

/-- MAIN: for every extracted unit, on every execution path and any number of loop iterations / method calls,
    no buffer supplied by the caller is written -/
theorem extracted_units_do_not_write_inputs (u : Gen.EffectsTable.Unit) (hu : u ∈ units) (s' : CState)
    (hx : Exec u.prog (entryState u.k) s') : ∀ b ∈ s'.written, ¬ b < u.k := by
  have := List.all_eq_true.mp all_extracted_safe u hu
  exact safe_no_input_write fuel u.k u.nv u.prog this s' hx

end PhotVerif.C10
