/-
  C03 — covariance under integer translation (zero-padded embedding) and axis transposition of the
  index / coordinate mechanisms shared by the measurement code: bounding boxes and overlap slices (generated
  from the source), the rendering window, centre of mass, central moments, the local-maximum test.
-/
import PhotVerif.Gen.BBox
import PhotVerif.Model.Render
import PhotVerif.Model.Centroid
import PhotVerif.Model.Moments
import PhotVerif.Model.Peaks
import PhotVerif.Proofs.FieldInst
import PhotVerif.Proofs.Raster
import Mathlib.Algebra.Order.Floor.Ring
import Mathlib.Data.Rat.Floor
import PhotVerif.Gen.XyRounding
import Mathlib.Tactic.FieldSimp
import Mathlib.Tactic.Ring
import Mathlib.Tactic.Linarith
import Mathlib.Tactic.SplitIfs

namespace PhotVerif.C03
open PhotVerif PhotVerif.Gen PhotVerif.Model PhotVerif.Raster

/-! ### bounding boxes (definitions regenerated from photutils/aperture/bounding_box.py) -/

def shiftB (dx dy : Int) (b : BBox) : BBox := ⟨b.ixmin + dx, b.ixmax + dx, b.iymin + dy, b.iymax + dy⟩
def transposeB (b : BBox) : BBox := ⟨b.iymin, b.iymax, b.ixmin, b.ixmax⟩

section fromFloat
variable {α : Type} [Field α] [LinearOrder α] [IsStrictOrderedRing α] [FloorRing α] [MathOps α]

/-- translating the float extents by integers (dx, dy) translates the integer box by exactly (dx, dy) -/
theorem fromFloat_translate (xmin xmax ymin ymax : α) (dx dy : Int) :
    BBox.fromFloat (xmin + dx) (xmax + dx) (ymin + dy) (ymax + dy)
      = (BBox.fromFloat xmin xmax ymin ymax).map (shiftB dx dy) := by
  have f1 : ∀ (a : α) (d : Int), Int.floor (a + d + 0.5) = Int.floor (a + 0.5) + d := by
    intro a d
    have : a + d + 0.5 = a + 0.5 + d := by ring
    rw [this, Int.floor_add_intCast]
  have c1 : ∀ (a : α) (d : Int), Int.ceil (a + d + 0.5) = Int.ceil (a + 0.5) + d := by
    intro a d
    have : a + d + 0.5 = a + 0.5 + d := by ring
    rw [this, Int.ceil_add_intCast]
  simp only [BBox.fromFloat, BBox.init, FloorOps.floorI, FloorOps.ceilI, gt_iff_lt, f1, c1]
  by_cases hx : Int.ceil (xmax + 0.5) < Int.floor (xmin + 0.5)
  · rw [if_pos (by omega), if_pos hx]; rfl
  · rw [if_neg (by omega), if_neg hx]
    by_cases hy : Int.ceil (ymax + 0.5) < Int.floor (ymin + 0.5)
    · rw [if_pos (by omega), if_pos hy]; rfl
    · rw [if_neg (by omega), if_neg hy]; rfl

/-- exchanging the x and y extents transposes the box -/
theorem fromFloat_transpose (xmin xmax ymin ymax : α) :
    BBox.fromFloat ymin ymax xmin xmax = (BBox.fromFloat xmin xmax ymin ymax).map transposeB := by
  simp only [BBox.fromFloat, BBox.init, FloorOps.floorI, FloorOps.ceilI, gt_iff_lt]
  by_cases hx : Int.ceil (xmax + 0.5) < Int.floor (xmin + 0.5) <;>
  by_cases hy : Int.ceil (ymax + 0.5) < Int.floor (ymin + 0.5) <;>
  simp [hx, hy, Except.map, transposeB]

end fromFloat

/-- a non-empty box inside a frame: the slices into the frame are the box itself, those into the cut-out the full cut-out -/
theorem overlap_inside (b : BBox) (ny nx : Int)
    (hin : 0 ≤ b.ixmin ∧ b.ixmax ≤ nx ∧ 0 ≤ b.iymin ∧ b.iymax ≤ ny) (hne : b.ixmin < b.ixmax ∧ b.iymin < b.iymax) :
    b.getOverlapSlices (ny, nx)
        = .ok (some ((⟨b.iymin, b.iymax⟩, ⟨b.ixmin, b.ixmax⟩), (⟨0, b.iymax - b.iymin⟩, ⟨0, b.ixmax - b.ixmin⟩))) := by
  obtain ⟨h1, h2, h3, h4⟩ := hin
  obtain ⟨n1, n2⟩ := hne
  simp only [BBox.getOverlapSlices, ne_eq, not_true_eq_false, if_false, pymax, pymin]
  split
  · rename_i h; exfalso; omega
  · simp only [Except.ok.injEq, Option.some.injEq, Prod.mk.injEq, Slc.mk.injEq]
    refine ⟨⟨⟨?_, ?_⟩, ⟨?_, ?_⟩⟩, ⟨⟨?_, ?_⟩, ⟨?_, ?_⟩⟩⟩ <;> split_ifs <;> omega

/-- a box inside the original ny × nx frame, embedded at (dx, dy) in a larger canvas: the slices into the canvas
    are the original ones shifted by (dy, dx), the slices into the cut-out are unchanged -/
theorem overlap_translate (b : BBox) (ny nx NY NX dx dy : Int)
    (hin : 0 ≤ b.ixmin ∧ b.ixmax ≤ nx ∧ 0 ≤ b.iymin ∧ b.iymax ≤ ny) (hne : b.ixmin < b.ixmax ∧ b.iymin < b.iymax)
    (hd : 0 ≤ dx ∧ dx + nx ≤ NX ∧ 0 ≤ dy ∧ dy + ny ≤ NY) :
    (shiftB dx dy b).getOverlapSlices (NY, NX)
        = .ok (some ((⟨b.iymin + dy, b.iymax + dy⟩, ⟨b.ixmin + dx, b.ixmax + dx⟩),
                     (⟨0, b.iymax - b.iymin⟩, ⟨0, b.ixmax - b.ixmin⟩))) ∧
    b.getOverlapSlices (ny, nx)
        = .ok (some ((⟨b.iymin, b.iymax⟩, ⟨b.ixmin, b.ixmax⟩), (⟨0, b.iymax - b.iymin⟩, ⟨0, b.ixmax - b.ixmin⟩))) := by
  refine ⟨?_, overlap_inside b ny nx hin hne⟩
  obtain ⟨h1, h2, h3, h4⟩ := hin
  obtain ⟨n1, n2⟩ := hne
  obtain ⟨d1, d2, d3, d4⟩ := hd
  have := overlap_inside (shiftB dx dy b) NY NX
    (by show 0 ≤ b.ixmin + dx ∧ b.ixmax + dx ≤ NX ∧ 0 ≤ b.iymin + dy ∧ b.iymax + dy ≤ NY; omega)
    (by show b.ixmin + dx < b.ixmax + dx ∧ b.iymin + dy < b.iymax + dy; omega)
  rw [this]
  have e1 : b.iymax + dy - (b.iymin + dy) = b.iymax - b.iymin := by omega
  have e2 : b.ixmax + dx - (b.ixmin + dx) = b.ixmax - b.ixmin := by omega
  simp only [shiftB, e1, e2]

/-- transposed box on the transposed frame: slices exchange roles -/
theorem overlap_transpose (b : BBox) (ny nx : Int) :
    (transposeB b).getOverlapSlices (nx, ny)
      = (b.getOverlapSlices (ny, nx)).map (Option.map fun s => ((s.1.2, s.1.1), (s.2.2, s.2.1))) := by
  obtain ⟨x0, x1, y0, y1⟩ := b
  simp only [BBox.getOverlapSlices, transposeB, ne_eq, not_true_eq_false, if_false]
  by_cases h : x0 ≥ nx ∨ y0 ≥ ny ∨ x1 ≤ 0 ∨ y1 ≤ 0
  · have h' : y0 ≥ ny ∨ x0 ≥ nx ∨ y1 ≤ 0 ∨ x1 ≤ 0 := by omega
    simp only [h, h', if_true]; rfl
  · have h' : ¬ (y0 ≥ ny ∨ x0 ≥ nx ∨ y1 ≤ 0 ∨ x1 ≤ 0) := by omega
    simp only [h, h', if_false]; rfl

/-! ### rendering window (make_model_image) -/

/-- a stamp that lies inside the original axis, on a longer axis with the position moved by an integer d:
    the window moves by exactly d -/
theorem window1_translate (large LARGE small : Nat) (pos : Rat) (d : Nat) (a b : Nat)
    (h : Render.window1 large small pos = some (a, b))
    (hin : 0 ≤ (pos - (small : Rat) / 2).ceil ∧ (pos - (small : Rat) / 2).ceil + small ≤ large)
    (hd : d + large ≤ LARGE) :
    Render.window1 LARGE small (pos + d) = some (a + d, b + d) := by
  have hc : (pos + (d : Rat) - (small : Rat) / 2).ceil = (pos - (small : Rat) / 2).ceil + d := by
    have : pos + (d : Rat) - (small : Rat) / 2 = pos - (small : Rat) / 2 + ((d : Int) : Rat) := by push_cast; ring
    rw [this]
    exact Rat.ceil_add_intCast
  unfold Render.window1 at h ⊢
  simp only at h ⊢
  rw [hc]
  generalize (pos - (small : Rat) / 2).ceil = c at *
  split at h
  · simp at h
  · rename_i hcnd
    simp only [Option.some.injEq, Prod.mk.injEq] at h
    obtain ⟨rfl, rfl⟩ := h
    rw [if_neg (by omega)]
    simp only [Option.some.injEq, Prod.mk.injEq]
    constructor <;> omega

/-! ### centre of mass and central moments on a zero-padded canvas -/

/-- zero-padded embedding of an ny × nx raster of values / mask at offset (dy, dx) in a canvas with NX columns -/
def embedV (ny nx NX dy dx : Nat) (d : Nat → V) : Nat → V := fun P =>
  if dy ≤ P / NX ∧ P / NX < dy + ny ∧ dx ≤ P % NX ∧ P % NX < dx + nx then d ((P / NX - dy) * nx + (P % NX - dx)) else .fin 0
def embedM (ny nx NX dy dx : Nat) (m : Nat → Bool) : Nat → Bool := fun P =>
  if dy ≤ P / NX ∧ P / NX < dy + ny ∧ dx ≤ P % NX ∧ P % NX < dx + nx then m ((P / NX - dy) * nx + (P % NX - dx)) else false

theorem comVal_embed (ny nx NX dy dx : Nat) (d : Nat → V) (m : Nat → Bool) (P : Nat) :
    Centroid.comVal (embedV ny nx NX dy dx d) (embedM ny nx NX dy dx m) P
      = embedAt ny nx dy dx (Centroid.comVal d m) (P / NX) (P % NX) := by
  unfold Centroid.comVal embedV embedM embedAt
  by_cases h : dy ≤ P / NX ∧ P / NX < dy + ny ∧ dx ≤ P % NX ∧ P % NX < dx + nx
  · simp only [if_pos h]
  · simp only [if_neg h]; simp

theorem sumR_range (n : Nat) (f : Nat → Rat) : Centroid.sumR ((List.range n).map f) = ∑ i ∈ Finset.range n, f i := by
  unfold Centroid.sumR; rw [← List.sum_eq_foldl, list_range_sum]

/-- MAIN (translation): the centre of mass of the embedded image is the original one plus (dx, dy) -/
theorem com_translate (ny nx NY NX dy dx : Nat) (hy : dy + ny ≤ NY) (hx : dx + nx ≤ NX) (hnx : 0 < nx)
    (d : Nat → V) (m : Nat → Bool) :
    Centroid.centroidCom NY NX (embedV ny nx NX dy dx d) (embedM ny nx NX dy dx m)
      = (Centroid.centroidCom ny nx d m).map fun c => (c.1 + (dx : Rat), c.2 + (dy : Rat)) := by
  set w := Centroid.comVal d m with hw
  have e0 : Centroid.sumR ((List.range (NY * NX)).map (Centroid.comVal (embedV ny nx NX dy dx d) (embedM ny nx NX dy dx m)))
      = Centroid.sumR ((List.range (ny * nx)).map w) := by
    rw [sumR_range, sumR_range]
    have := embed_sum ny nx NY NX dy dx hy hx hnx w (fun _ _ => 1)
    simp only [one_mul] at this
    rw [← this]
    exact Finset.sum_congr rfl (fun P _ => comVal_embed ny nx NX dy dx d m P)
  have ex : Centroid.sumR ((List.range (NY * NX)).map fun P => ((P % NX : Nat) : Rat) *
        Centroid.comVal (embedV ny nx NX dy dx d) (embedM ny nx NX dy dx m) P)
      = Centroid.sumR ((List.range (ny * nx)).map fun p => ((p % nx : Nat) : Rat) * w p)
        + dx * Centroid.sumR ((List.range (ny * nx)).map w) := by
    rw [sumR_range, sumR_range, sumR_range]
    have := embed_sum ny nx NY NX dy dx hy hx hnx w (fun _ X => (X : Rat))
    rw [Finset.mul_sum, ← Finset.sum_add_distrib]
    have e : ∀ p ∈ Finset.range (ny * nx), ((p % nx + dx : Nat) : Rat) * w p = ((p % nx : Nat) : Rat) * w p + dx * w p := by
      intro p _; push_cast; ring
    rw [← Finset.sum_congr rfl e, ← this]
    exact Finset.sum_congr rfl (fun P _ => by rw [comVal_embed])
  have ey : Centroid.sumR ((List.range (NY * NX)).map fun P => ((P / NX : Nat) : Rat) *
        Centroid.comVal (embedV ny nx NX dy dx d) (embedM ny nx NX dy dx m) P)
      = Centroid.sumR ((List.range (ny * nx)).map fun p => ((p / nx : Nat) : Rat) * w p)
        + dy * Centroid.sumR ((List.range (ny * nx)).map w) := by
    rw [sumR_range, sumR_range, sumR_range]
    have := embed_sum ny nx NY NX dy dx hy hx hnx w (fun Y _ => (Y : Rat))
    rw [Finset.mul_sum, ← Finset.sum_add_distrib]
    have e : ∀ p ∈ Finset.range (ny * nx), ((p / nx + dy : Nat) : Rat) * w p = ((p / nx : Nat) : Rat) * w p + dy * w p := by
      intro p _; push_cast; ring
    rw [← Finset.sum_congr rfl e, ← this]
    exact Finset.sum_congr rfl (fun P _ => by rw [comVal_embed])
  unfold Centroid.centroidCom
  simp only [← hw]
  simp only [e0, ex, ey]
  by_cases ht : Centroid.sumR ((List.range (ny * nx)).map w) = 0
  · rw [if_pos ht, if_pos ht]; rfl
  · rw [if_neg ht, if_neg ht]
    simp only [Option.map_some, Option.some.injEq, Prod.mk.injEq]
    constructor <;> field_simp

/-- the transposed raster (nx rows, ny columns) -/
def transposeR {β : Type} (ny nx : Nat) (d : Nat → β) : Nat → β := fun P => d ((P % ny) * nx + P / ny)

/-- MAIN (transposition): the centre of mass of the transposed image is the original one with x and y exchanged -/
theorem com_transpose (ny nx : Nat) (d : Nat → V) (m : Nat → Bool) :
    Centroid.centroidCom nx ny (transposeR ny nx d) (transposeR ny nx m)
      = (Centroid.centroidCom ny nx d m).map fun c => (c.2, c.1) := by
  set w := Centroid.comVal d m with hw
  have hv : ∀ P, Centroid.comVal (transposeR ny nx d) (transposeR ny nx m) P = w ((P % ny) * nx + P / ny) := by
    intro P; rfl
  have e0 : Centroid.sumR ((List.range (nx * ny)).map (Centroid.comVal (transposeR ny nx d) (transposeR ny nx m)))
      = Centroid.sumR ((List.range (ny * nx)).map w) := by
    rw [sumR_range, sumR_range]
    have := transpose_sum ny nx w (fun _ _ => 1)
    simp only [one_mul] at this
    rw [← this]
    exact Finset.sum_congr rfl (fun P _ => hv P)
  have ex : Centroid.sumR ((List.range (nx * ny)).map fun P => ((P % ny : Nat) : Rat) *
        Centroid.comVal (transposeR ny nx d) (transposeR ny nx m) P)
      = Centroid.sumR ((List.range (ny * nx)).map fun p => ((p / nx : Nat) : Rat) * w p) := by
    rw [sumR_range, sumR_range]
    rw [← transpose_sum ny nx w (fun _ Y => (Y : Rat))]
    exact Finset.sum_congr rfl (fun P _ => by rw [hv])
  have ey : Centroid.sumR ((List.range (nx * ny)).map fun P => ((P / ny : Nat) : Rat) *
        Centroid.comVal (transposeR ny nx d) (transposeR ny nx m) P)
      = Centroid.sumR ((List.range (ny * nx)).map fun p => ((p % nx : Nat) : Rat) * w p) := by
    rw [sumR_range, sumR_range]
    rw [← transpose_sum ny nx w (fun X _ => (X : Rat))]
    exact Finset.sum_congr rfl (fun P _ => by rw [hv])
  unfold Centroid.centroidCom
  simp only [← hw]
  simp only [e0, ex, ey]
  by_cases ht : Centroid.sumR ((List.range (ny * nx)).map w) = 0
  · rw [if_pos ht, if_pos ht]; rfl
  · rw [if_neg ht, if_neg ht]; rfl

theorem msumR_range (n : Nat) (f : Nat → Rat) : Moments.sumR ((List.range n).map f) = ∑ i ∈ Finset.range n, f i := by
  unfold Moments.sumR; rw [← List.sum_eq_foldl, list_range_sum]

/-- MAIN (translation): every central moment about the shifted centre is unchanged by the embedding -/
theorem moment_translate (ny nx NY NX dy dx : Nat) (hy : dy + ny ≤ NY) (hx : dx + nx ≤ NX) (hnx : 0 < nx)
    (w : Nat → Rat) (xc yc : Rat) (i j : Nat) :
    Moments.centralMoment NY NX (fun P => embedAt ny nx dy dx w (P / NX) (P % NX)) (xc + dx) (yc + dy) i j
      = Moments.centralMoment ny nx w xc yc i j := by
  unfold Moments.centralMoment
  rw [msumR_range, msumR_range]
  have := embed_sum ny nx NY NX dy dx hy hx hnx w (fun Y X => ((X : Rat) - (xc + dx)) ^ i * ((Y : Rat) - (yc + dy)) ^ j)
  rw [this]
  apply Finset.sum_congr rfl
  intro p _
  push_cast
  congr 2 <;> ring

/-- MAIN (transposition): central moments of the transposed image are the original ones with the powers exchanged
    (so mu20 ↔ mu02, mu11 fixed: the orientation angle θ becomes 90° − θ) -/
theorem moment_transpose (ny nx : Nat) (w : Nat → Rat) (xc yc : Rat) (i j : Nat) :
    Moments.centralMoment nx ny (transposeR ny nx w) yc xc i j = Moments.centralMoment ny nx w xc yc j i := by
  unfold Moments.centralMoment
  rw [msumR_range, msumR_range]
  have := transpose_sum ny nx w (fun X Y => ((Y : Rat) - yc) ^ i * ((X : Rat) - xc) ^ j)
  unfold transposeR
  rw [this]
  apply Finset.sum_congr rfl
  intro p _
  ring

/-! ### local-maximum test (find_peaks) -/

theorem all_congr' {α : Type} (l : List α) (f g : α → Bool) (h : ∀ a ∈ l, f a = g a) : l.all f = l.all g := by
  induction l with
  | nil => rfl
  | cons a l ih =>
    simp only [List.all_cons]
    rw [h a List.mem_cons_self, ih (fun b hb => h b (List.mem_cons_of_mem _ hb))]

theorem any_congr' {α : Type} (l : List α) (f g : α → Bool) (h : ∀ a ∈ l, f a = g a) : l.any f = l.any g := by
  induction l with
  | nil => rfl
  | cons a l ih =>
    simp only [List.any_cons]
    rw [h a List.mem_cons_self, ih (fun b hb => h b (List.mem_cons_of_mem _ hb))]

/-- a pixel whose whole footprint lies inside the original frame is a neighbourhood maximum of the embedded
    image iff it is one of the original image, whatever the constant fill values are -/
theorem nbhdMax_translate (c C : Peaks.Cfg) (dy dx : Nat) (hoff : C.offsets = c.offsets)
    (hy : dy + c.ny ≤ C.ny) (hx : dx + c.nx ≤ C.nx) (d D : Nat → Int × Rat) (cval CVAL : Int × Rat)
    (hD : ∀ y x, y < c.ny → x < c.nx → D ((y + dy) * C.nx + (x + dx)) = d (y * c.nx + x))
    (p : Nat) (hp : p < c.ny * c.nx)
    (hint : ∀ o ∈ c.offsets, Peaks.inImage c ((p / c.nx : Nat) + o.1) ((p % c.nx : Nat) + o.2) = true) :
    Peaks.isNbhdMax C D CVAL ((p / c.nx + dy) * C.nx + (p % c.nx + dx)) = Peaks.isNbhdMax c d cval p := by
  have hnx : 0 < c.nx := by
    rcases Nat.eq_zero_or_pos c.nx with h | h
    · rw [h] at hp; simp at hp
    · exact h
  have hyy : p / c.nx < c.ny := Nat.div_lt_of_lt_mul (by rw [Nat.mul_comm]; exact hp)
  have hxx : p % c.nx < c.nx := Nat.mod_lt _ hnx
  have hXlt : p % c.nx + dx < C.nx := by omega
  have eY : ((p / c.nx + dy) * C.nx + (p % c.nx + dx)) / C.nx = p / c.nx + dy := by
    rw [Nat.mul_comm, Nat.mul_add_div (by omega), Nat.div_eq_of_lt hXlt]; rfl
  have eX : ((p / c.nx + dy) * C.nx + (p % c.nx + dx)) % C.nx = p % c.nx + dx := by
    rw [Nat.mul_comm, Nat.mul_add_mod, Nat.mod_eq_of_lt hXlt]
  have eP : D ((p / c.nx + dy) * C.nx + (p % c.nx + dx)) = d p := by
    rw [hD _ _ hyy hxx, Nat.div_add_mod' p c.nx]
  have epad : ∀ o ∈ c.offsets,
      Peaks.padded C D CVAL (((p / c.nx + dy : Nat) : Int) + o.1) (((p % c.nx + dx : Nat) : Int) + o.2)
        = Peaks.padded c d cval (((p / c.nx : Nat) : Int) + o.1) (((p % c.nx : Nat) : Int) + o.2) := by
    intro o ho
    have hi := hint o ho
    unfold Peaks.inImage at hi
    simp only [decide_eq_true_eq] at hi
    obtain ⟨a1, a2, a3, a4⟩ := hi
    unfold Peaks.padded Peaks.inImage
    rw [if_pos (by simp only [decide_eq_true_eq]; push_cast; omega), if_pos (by simp only [decide_eq_true_eq]; omega)]
    set yy : Int := ((p / c.nx : Nat) : Int) + o.1 with hyyd
    set xx : Int := ((p % c.nx : Nat) : Int) + o.2 with hxxd
    have t1 : (((p / c.nx + dy : Nat) : Int) + o.1).toNat = yy.toNat + dy := by push_cast; omega
    have t2 : (((p % c.nx + dx : Nat) : Int) + o.2).toNat = xx.toNat + dx := by push_cast; omega
    rw [t1, t2]
    exact hD _ _ (by omega) (by omega)
  unfold Peaks.isNbhdMax
  simp only [eY, eX, eP, hoff]
  congr 1
  · exact all_congr' _ _ _ (fun o ho => by rw [epad o ho])
  · exact any_congr' _ _ _ (fun o ho => by rw [epad o ho])

-- non-vacuity: a 2 × 3 raster with one bright pixel embedded at (1, 2) in a 4 × 6 canvas
example : Centroid.centroidCom 4 6 (embedV 2 3 6 1 2 (fun p => if p = 4 then V.fin 5 else V.fin 0))
    (embedM 2 3 6 1 2 (fun _ => false)) = some (3, 2) := by decide +kernel

/-! ### supplied positions (`xycoords`) → pixels: covariant under integer translations -/

/-- TABLE OBLIGATION (regenerated from the source): both finders map the supplied positions to pixels with `ceil(x - 0.5)`, the
    expression `Peaks.xyPixel` models (seed C03-r9 used `np.round`, whose ties go to the even integer: not translation covariant) -/
theorem xycoords_rounding_table :
    Gen.XyRounding.rows = [("DAOStarFinder", "np.ceil(self.xycoords - 0.5).astype(int)"),
                           ("IRAFStarFinder", "np.ceil(self.xycoords - 0.5).astype(int)")] := by decide

theorem xyPixel_eq_ceil (x : Rat) : Peaks.xyPixel x = ⌈x - 1 / 2⌉ := rfl

/-- the pixel of a translated position is the translated pixel, half-pixel positions included -/
theorem xyPixel_translate (x : Rat) (n : Int) : Peaks.xyPixel (x + n) = Peaks.xyPixel x + n := by
  rw [xyPixel_eq_ceil, xyPixel_eq_ceil]
  have : x + (n : Rat) - 1 / 2 = (x - 1 / 2) + (n : Rat) := by ring
  rw [this, Int.ceil_add_intCast]

/-- it is the pixel whose centre is nearest (the lower one on a tie) -/
theorem xyPixel_nearest (x : Rat) : (Peaks.xyPixel x : Rat) - 1 / 2 < x ∧ x ≤ (Peaks.xyPixel x : Rat) + 1 / 2 := by
  rw [xyPixel_eq_ceil]
  constructor
  · have := Int.ceil_lt_add_one (x - 1 / 2); linarith
  · have := Int.le_ceil (x - 1 / 2); linarith

-- why half-to-even rounding would not do: 10.5 → 10 but 11.5 → 12 (a shift by one pixel moves the result by two)
example : Peaks.roundHalfEven (21 / 2) = 10 ∧ Peaks.roundHalfEven (23 / 2) = 12 ∧ Peaks.xyPixel (21 / 2) = 10 ∧ Peaks.xyPixel (23 / 2) = 11 := by
  decide +kernel

/-- `py2intround` (the start pixel of `centroid_quadratic`; ties away from zero) commutes with integer translations as long as both
    positions are non-negative, which pixel coordinates are -/
theorem py2intround_translate (a : Rat) (n : Int) (ha : 0 ≤ a) (han : 0 ≤ a + n) :
    Centroid.py2intround (a + n) = Centroid.py2intround a + n := by
  unfold Centroid.py2intround
  rw [if_pos ha, if_pos han]
  have : a + (n : Rat) + 1 / 2 = (a + 1 / 2) + (n : Rat) := by ring
  rw [this]
  exact Int.floor_add_intCast (a + 1 / 2) n

end PhotVerif.C03
