/-
  C19 — radial profiles and curves of growth are consistent with aperture photometry.
  Curve-of-growth samples ARE aperture sums (C02 model); here: the difference-quotient laws,
  the constant-image law, monotonicity of counting weights and of the curve of growth, and the
  monotone-prefix rule of calc_radius_at_ee.  Normalisation is C09 (profile_history_inv, unnormalize_restores).
-/
import PhotVerif.Model.Profile
import PhotVerif.Model.ApSum
import PhotVerif.Props.C02
import PhotVerif.Props.C09
import Mathlib.Algebra.Order.Field.Rat
import Mathlib.Algebra.BigOperators.Group.List.Basic
import Mathlib.Tactic.FieldSimp
import Mathlib.Tactic.Ring
import Mathlib.Tactic.Linarith
import PhotVerif.Gen.ForwardTable

namespace PhotVerif.C19
open PhotVerif.Model.Profile PhotVerif.Model

/-! ### difference quotients -/

theorem diff_length (l : List Rat) : (diff l).length = l.length - 1 := by
  induction l with
  | nil => rfl
  | cons a l ih =>
    cases l with
    | nil => rfl
    | cons b rest => simp only [diff, List.length_cons] at *; omega

theorem diff_getElem (l : List Rat) (i : Nat) (h : i + 1 < l.length) :
    (diff l)[i]'(by rw [diff_length]; omega) = l[i + 1] - l[i] := by
  induction l generalizing i with
  | nil => simp at h
  | cons a l ih =>
    cases l with
    | nil => simp at h
    | cons b rest =>
      cases i with
      | zero => simp [diff]
      | succ i =>
        simp only [diff, List.getElem_cons_succ]
        exact ih i (by simpa using h)

/-- a constant image gives that constant in every bin: if every aperture sum is `c · area`
    then `diff(flux)/diff(area) = c` wherever the bin has non-zero area -/
theorem constant_image_constant_profile (c : Rat) (area : List Rat) (i : Nat)
    (h : i + 1 < area.length) (hne : area[i + 1] - area[i] ≠ 0) :
    (radialProfile (area.map (c * ·)) area)[i]? = some (some c) := by
  unfold radialProfile
  have hl : i < (diff area).length := by rw [diff_length]; omega
  have hl2 : i < (diff (area.map (c * ·))).length := by rw [diff_length]; simp; omega
  rw [List.getElem?_eq_getElem (by simp; exact ⟨hl2, hl⟩)]
  simp only [List.getElem_zipWith]
  rw [diff_getElem area i h, diff_getElem _ i (by simpa using h)]
  simp only [List.getElem_map]
  rw [if_neg hne]
  congr 2
  field_simp

/-- errors propagate in quadrature: err² of bin i is (E²[i+1] − E²[i]) / ΔA² -/
theorem radial_error_quadrature (err2 area : List Rat) (i : Nat) (h1 : i + 1 < err2.length)
    (h2 : i + 1 < area.length) (hne : area[i + 1] - area[i] ≠ 0) :
    (radialErr2 err2 area)[i]? =
      some (some ((err2[i + 1] - err2[i]) / ((area[i + 1] - area[i]) * (area[i + 1] - area[i])))) := by
  unfold radialErr2
  have hl : i < (diff area).length := by rw [diff_length]; omega
  have hl2 : i < (diff err2).length := by rw [diff_length]; omega
  rw [List.getElem?_eq_getElem (by simp; exact ⟨hl2, hl⟩)]
  simp only [List.getElem_zipWith]
  rw [diff_getElem area i h2, diff_getElem err2 i h1, if_neg hne]

/-! ### monotonicity -/

/-- weighted sums are monotone in the weights for non-negative data: with pixel-wise
    `w₁ ≤ w₂` the aperture sum can only grow — hence non-negative data give a non-decreasing curve of growth -/
theorem wsum_mono (px : List (Int × Int)) (w1 w2 : Int → Int → Rat) (d : Int → Int → Rat)
    (hw : ∀ p ∈ px, w1 p.1 p.2 ≤ w2 p.1 p.2) (hd : ∀ p ∈ px, 0 ≤ d p.1 p.2) :
    (px.map fun p => w1 p.1 p.2 * d p.1 p.2).sum ≤ (px.map fun p => w2 p.1 p.2 * d p.1 p.2).sum := by
  induction px with
  | nil => simp
  | cons p px ih =>
    simp only [List.map_cons, List.sum_cons]
    have h1 := hw p List.mem_cons_self
    have h2 := hd p List.mem_cons_self
    have := ih (fun q hq => hw q (List.mem_cons_of_mem _ hq)) (fun q hq => hd q (List.mem_cons_of_mem _ hq))
    have : w1 p.1 p.2 * d p.1 p.2 ≤ w2 p.1 p.2 * d p.1 p.2 := mul_le_mul_of_nonneg_right h1 h2
    linarith

/-- counting weights are monotone in the shape: a larger circle contains every sub-pixel centre of a smaller one -/
theorem countP_mono {α : Type} (l : List α) (p q : α → Bool) (h : ∀ a ∈ l, p a = true → q a = true) :
    l.countP p ≤ l.countP q := by
  induction l with
  | nil => simp
  | cons a l ih =>
    simp only [List.countP_cons]
    have := ih (fun b hb => h b (List.mem_cons_of_mem _ hb))
    have ha := h a List.mem_cons_self
    by_cases hp : p a = true
    · simp [hp, ha hp]; omega
    · simp [hp]; split <;> omega

/-! ### the monotone prefix used by calc_radius_at_ee -/

theorem monoPrefixLen_le (p : List Rat) : monoPrefixLen p ≤ p.length := by
  induction p with
  | nil => simp [monoPrefixLen]
  | cons a p ih =>
    cases p with
    | nil => simp [monoPrefixLen]
    | cons b rest =>
      simp only [monoPrefixLen]
      split
      · simp
      · simp only [List.length_cons] at *; omega

/-- the kept samples are strictly increasing … -/
theorem monoPrefix_chain (p : List Rat) :
    ∀ i, i + 1 < monoPrefixLen p → ∀ (h : i + 1 < p.length), p[i] < p[i + 1] := by
  induction p with
  | nil => intro i hi; simp [monoPrefixLen] at hi
  | cons a p ih =>
    cases p with
    | nil => intro i hi; simp [monoPrefixLen] at hi
    | cons b rest =>
      intro i hi h
      simp only [monoPrefixLen] at hi
      split at hi
      · omega
      · rename_i hba
        cases i with
        | zero => simp only [List.getElem_cons_zero, List.getElem_cons_succ]; exact lt_of_not_ge hba
        | succ i =>
          simp only [List.getElem_cons_succ]
          exact ih i (by omega) (by simpa using h)

theorem getElem_cons_pred (a : Rat) (l : List Rat) (m : Nat) (hm : 0 < m) (h : m < (a :: l).length) :
    (a :: l)[m] = l[m - 1]'(by simp at h; omega) := by
  cases m with
  | zero => omega
  | succ m => simp

/-- … and the prefix is maximal: it is everything, or the next sample does not increase.
    In particular the last strictly increasing sample IS kept (index `monoPrefixLen - 1`). -/
theorem monoPrefix_maximal (p : List Rat) :
    monoPrefixLen p = p.length ∨
    ∃ (h : monoPrefixLen p < p.length) (h0 : 0 < monoPrefixLen p),
      p[monoPrefixLen p] ≤ p[monoPrefixLen p - 1] := by
  induction p with
  | nil => left; rfl
  | cons a p ih =>
    cases p with
    | nil => left; rfl
    | cons b rest =>
      simp only [monoPrefixLen]
      split
      · rename_i hba
        right
        exact ⟨by simp, by omega, by simpa using hba⟩
      · rcases ih with h | ⟨h, h0, hle⟩
        · left; simp only [List.length_cons] at *; omega
        · right
          refine ⟨by simp only [List.length_cons] at h ⊢; omega, by omega, ?_⟩
          have e1 : 1 + monoPrefixLen (b :: rest) = monoPrefixLen (b :: rest) + 1 := by omega
          simp only [e1, List.getElem_cons_succ, Nat.add_sub_cancel]
          rw [getElem_cons_pred a (b :: rest) (monoPrefixLen (b :: rest)) h0 (by simp only [List.length_cons] at h ⊢; omega)]
          exact hle

-- non-vacuity: 1 < 3 < 6, then 6 ≥ 5: three samples are kept (the old code kept two)
example : monoPrefix [1, 3, 6, 5, 9] = [1, 3, 6] := by decide +kernel

/-! ### no delegating call in this property's modules drops an argument it holds (table regenerated from the source) -/

/-- TABLE OBLIGATION: in the modules of this property, every call that delegates to another photutils function, method or
    constructor passes on each value the caller holds under the callee's own parameter name (its own parameters, `self.<name>`
    attributes set in `__init__`) - dropped `subpixels`, `mask`, `connectivity`, `include_localbkg` ... keywords were a recurring
    kind of seeded change -/
theorem no_dropped_arguments : Gen.ForwardTable.droppedIn Gen.ForwardTable.scopeC19 = [] := by decide

end PhotVerif.C19
