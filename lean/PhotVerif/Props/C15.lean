/-
  C15 — unit handling is all-or-nothing and order independent; the total-error formula.
  (Representation independence of the numerical entry points is decided on the implementation; see DESIGN.)
-/
import PhotVerif.Model.Units
import PhotVerif.Gen.FloatGuards
import Mathlib.Algebra.Order.Field.Rat
import Mathlib.Data.List.Perm.Basic
import Mathlib.Tactic.Linarith
import Mathlib.Tactic.Positivity
import Mathlib.Tactic.Ring
import Mathlib.Tactic.SplitIfs
import Mathlib.Tactic.Tauto
import PhotVerif.Gen.ForwardTable
import PhotVerif.Gen.StatsUnits
import PhotVerif.Gen.SquareSites

namespace PhotVerif.C15
open PhotVerif PhotVerif.Model.Units

theorem all_beq_iff (u : Option Nat) (l : List (Option Nat)) : l.all (· == u) = true ↔ ∀ v ∈ l, v = u := by
  simp [List.all_eq_true]

/-- MAIN: the call succeeds with unit `u` iff at least one input is present and every present input has unit `u`
    (`u = none`: all unit-less) -/
theorem process_ok_iff (es : List Entry) (u : Option Nat) :
    processQuantities es = .ok u ↔ ((∃ e ∈ es, unitOf e = some u) ∧ ∀ e ∈ es, unitOf e = none ∨ unitOf e = some u) := by
  unfold processQuantities
  have hmem : ∀ v, v ∈ es.filterMap unitOf ↔ ∃ e ∈ es, unitOf e = some v := by
    intro v; simp [List.mem_filterMap]
  cases hl : es.filterMap unitOf with
  | nil =>
    simp only
    constructor
    · intro h; cases h
    · rintro ⟨⟨e, he, hu⟩, _⟩
      have : u ∈ es.filterMap unitOf := (hmem u).mpr ⟨e, he, hu⟩
      rw [hl] at this; cases this
  | cons w rest =>
    simp only
    constructor
    · intro h
      split at h
      · rename_i hall
        cases h
        rw [all_beq_iff] at hall
        refine ⟨(hmem u).mp (by rw [hl]; exact List.mem_cons_self), ?_⟩
        intro e he
        cases hue : unitOf e with
        | none => left; rfl
        | some v =>
          right
          have hv : v ∈ es.filterMap unitOf := (hmem v).mpr ⟨e, he, hue⟩
          rw [hl] at hv
          rcases List.mem_cons.mp hv with h1 | h1
          · rw [h1]
          · rw [hall v h1]
      · cases h
    · rintro ⟨⟨e, he, hu⟩, hall⟩
      have hin : ∀ v ∈ w :: rest, v = u := by
        intro v hv
        have : v ∈ es.filterMap unitOf := by rw [hl]; exact hv
        obtain ⟨e', he', hu'⟩ := (hmem v).mp this
        rcases hall e' he' with h1 | h1
        · rw [h1] at hu'; cases hu'
        · rw [h1] at hu'; cases hu'; rfl
      have hw : w = u := hin w List.mem_cons_self
      subst hw
      have : rest.all (· == w) = true := (all_beq_iff w rest).mpr (fun v hv => hin v (List.mem_cons_of_mem _ hv))
      rw [if_pos this]

/-- mixing a unit-ful with a unit-less input is always rejected with ValueError -/
theorem mixing_rejected (es : List Entry) (k : Nat) (h1 : Entry.plain ∈ es) (h2 : Entry.unit k ∈ es) :
    processQuantities es = .error .ValueError := by
  have hne : ∀ u, processQuantities es ≠ .ok u := by
    intro u h
    obtain ⟨_, hall⟩ := (process_ok_iff es u).mp h
    have a := hall _ h1
    have b := hall _ h2
    simp [unitOf] at a b
    rw [← a] at b; cases b
  unfold processQuantities at hne ⊢
  cases hl : es.filterMap unitOf with
  | nil =>
    have : (some none : Option (Option Nat)) = unitOf .plain := rfl
    have hm : (none : Option Nat) ∈ es.filterMap unitOf := by
      simp only [List.mem_filterMap]; exact ⟨.plain, h1, rfl⟩
    rw [hl] at hm; cases hm
  | cons w rest =>
    simp only [hl] at hne ⊢
    split
    · rename_i h; exact absurd (by simp [h]) (hne w)
    · rfl

/-- two different units are rejected as well -/
theorem different_units_rejected (es : List Entry) (j k : Nat) (hjk : j ≠ k) (h1 : Entry.unit j ∈ es) (h2 : Entry.unit k ∈ es) :
    ∀ u, processQuantities es ≠ .ok u := by
  intro u h
  obtain ⟨_, hall⟩ := (process_ok_iff es u).mp h
  have a := hall _ h1
  have b := hall _ h2
  simp [unitOf] at a b
  rw [← a] at b; cases b; exact hjk rfl

/-- the decision does not depend on the order of the inputs -/
theorem process_perm (es es' : List Entry) (h : es.Perm es') (u : Option Nat) :
    processQuantities es = .ok u ↔ processQuantities es' = .ok u := by
  rw [process_ok_iff, process_ok_iff]
  constructor
  · rintro ⟨⟨e, he, hu⟩, hall⟩
    exact ⟨⟨e, h.mem_iff.mp he, hu⟩, fun e' he' => hall e' (h.mem_iff.mpr he')⟩
  · rintro ⟨⟨e, he, hu⟩, hall⟩
    exact ⟨⟨e, h.mem_iff.mpr he, hu⟩, fun e' he' => hall e' (h.mem_iff.mp he')⟩

/-- numbers are returned unchanged whatever the unit -/
theorem stripped_payload (e : Entry) (p : List Rat) (h : e ≠ .absent) : stripped e p = some p := by
  cases e <;> simp_all [stripped]

/-! ### calc_total_error -/

/-- units: all three inputs or none; data and bkg_error share the unit, which is also the unit of the result -/
theorem total_error_unit_ok_iff (d b g : Option Nat) (c : Bool) (u : Option Nat) :
    totalErrorUnit d b g c = .ok u ↔
      ((d = none ∧ b = none ∧ g = none ∧ u = none) ∨ (d.isSome ∧ g.isSome ∧ d = b ∧ c = true ∧ u = d)) := by
  rcases d with _ | d <;> rcases b with _ | b <;> rcases g with _ | g <;> cases c <;>
    simp [totalErrorUnit] <;> (try split_ifs) <;> (try simp_all) <;> (try constructor) <;> (try intro h) <;> (try simp_all) <;>
    (try omega)

/-- value: at least the background error; exactly it where the data is non-positive or the gain is zero;
    never decreasing in the data -/
theorem total_error_bounds (d b g t : Rat) (h : totalError2 d b g = .ok t) :
    b * b ≤ t ∧ ((d ≤ 0 ∨ g = 0) → t = b * b) ∧ 0 ≤ g := by
  unfold totalError2 at h
  split at h
  · cases h
  · rename_i hg
    cases h
    have hg' : 0 ≤ g := not_lt.mp hg
    refine ⟨?_, ?_, hg'⟩
    · split
      · have := le_max_right (d / g) 0; linarith
      · linarith
    · rintro (hd | h0)
      · split
        · rename_i hne
          have : d / g ≤ 0 := div_nonpos_of_nonpos_of_nonneg hd hg'
          rw [max_eq_right this]; ring
        · ring
      · rw [if_neg (by simpa using h0)]; ring

theorem total_error_mono (d d' b g t t' : Rat) (hd : d ≤ d') (h : totalError2 d b g = .ok t) (h' : totalError2 d' b g = .ok t') :
    t ≤ t' := by
  unfold totalError2 at h h'
  split at h
  · cases h
  · rename_i hg
    rw [if_neg hg] at h'
    cases h; cases h'
    have hg' : 0 ≤ g := not_lt.mp hg
    split
    · have : d / g ≤ d' / g := div_le_div_of_nonneg_right hd hg'
      have := max_le_max this (le_refl (0 : Rat))
      linarith
    · exact le_refl _

/-- a negative gain is rejected -/
theorem negative_gain_rejected (d b g : Rat) (h : g < 0) : totalError2 d b g = .error .ValueError := by
  unfold totalError2; rw [if_pos h]

/-! ### float conversion before in-place arithmetic (facts regenerated from the source each run) -/

theorem float_guards :
    Gen.FloatGuards.totalErrorSourceVarianceIsFloat = true ∧ Gen.FloatGuards.filterDataIntToFloat = true ∧
    Gen.FloatGuards.background2dNonFloatToFloat32 = true ∧ Gen.FloatGuards.catalogCutoutsFloat = true ∧
    Gen.FloatGuards.apertureStatsCutoutFloat = true ∧ Gen.FloatGuards.centroidSourcesFloat = true ∧
    Gen.FloatGuards.processQuantitiesSkipsNone = true ∧ Gen.FloatGuards.processQuantitiesRejectsMixed = true ∧
    Gen.FloatGuards.processQuantitiesStripsValue = true := by decide

-- non-vacuity
example : processQuantities [.absent, .unit 3, .unit 3] = .ok (some 3) := by decide
example : processQuantities [.plain, .unit 3] = .error .ValueError := by decide
example : totalError2 8 3 2 = .ok 13 := by decide +kernel

/-! ### no delegating call in this property's modules drops an argument it holds (table regenerated from the source) -/

/-- TABLE OBLIGATION: in the modules of this property, every call that delegates to another photutils function, method or
    constructor passes on each value the caller holds under the callee's own parameter name (its own parameters, `self.<name>`
    attributes set in `__init__`) - dropped `subpixels`, `mask`, `connectivity`, `include_localbkg` ... keywords were a recurring
    kind of seeded change -/
theorem no_dropped_arguments : Gen.ForwardTable.droppedIn Gen.ForwardTable.scopeC15 =
    -- the one intended exception: the 'center' masks are built with method='center', which ignores `subpixels`
    [("aperture/stats.py", "ApertureStats._aperture_masks_center", "to_mask", "subpixels")] := by decide

/-! ### units of the ApertureStats statistics (table regenerated from the source) -/

/-- TABLE OBLIGATION: the variance-like statistics (`var`, `biweight_midvariance`) ask `_calculate_stats` for the squared data unit, every
    other statistic for the data unit itself, and `_calculate_stats` attaches what it is asked for (seed C15-r8 ignored the argument) -/
theorem stats_units_table :
    (Gen.StatsUnits.rows.filter fun r => r.2 == 2).map (·.1) = ["var", "biweight_midvariance"] ∧
    (Gen.StatsUnits.rows.all fun r => r.2 == 1 || r.2 == 2) = true ∧
    Gen.StatsUnits.calculateStatsHonoursUnit = true := by decide

/-- the unit attached is consistent with how the statistic scales: a statistic of power p of data in unit u, re-expressed in a unit
    c times smaller (values c times larger), changes by c^p - so only `unit^p` keeps the physical quantity unchanged -/
theorem stat_unit_consistent (p : Nat) (c v : Rat) (hc : c ≠ 0) :
    (scalesWith p c * v) / c ^ p = v := by
  unfold scalesWith
  rw [mul_comm, mul_div_assoc, div_self (pow_ne_zero p hc), mul_one]

theorem statUnit_none (p : Nat) : statUnit none p = none := rfl
theorem statUnit_some (u p : Nat) : statUnit (some u) p = some (u, p) := rfl

/-! ### squares of error maps are taken on float values (table regenerated from the source) -/

/-- TABLE OBLIGATION: every place in the photometry / catalogue / centroid / total-error code that squares an error array the caller handed
    in does so on a float64 copy made in the same function - an integer error map squared in its own dtype wraps around (seeds C02-r8,
    C07-r11, C19-r11; defect F69 was the same mistake with a product).  The one site not cast locally receives float cut-outs from
    `_make_aperture_data` (`self._error[slc_lg].astype(float)`). -/
theorem error_squares_in_float :
    Gen.SquareSites.uncast = [("segmentation/catalog.py", "_aperture_photometry", "error")] ∧
    6 ≤ Gen.SquareSites.sites.length := by decide

/-- why the cast matters: in a w-bit unsigned dtype the square of x is x² mod 2^w, which differs from x² as soon as x ≥ 2^(w/2)
    (uint16: 300² = 90000 is stored as 24464) -/
theorem wrapped_square_differs (w x : Nat) (h : 2 ^ w ≤ x * x) : (x * x) % 2 ^ w ≠ x * x := by
  intro he
  have := Nat.mod_lt (x * x) (Nat.two_pow_pos w)
  omega

example : (300 * 300) % 2 ^ 16 = 24464 := by decide

end PhotVerif.C15
