/-
  C20 — logic of the isophote fitter: the scalar and vectorised coordinate transforms agree, the list of
  semi-major axes is strictly increasing and inside the requested range, fixed parameters are never corrected,
  and the elliptical radius stays between the semi-minor and semi-major axis.
-/
import PhotVerif.Model.Isophote
import PhotVerif.Gen.IsophoteTable
import PhotVerif.Gen.IsophoteFns
import PhotVerif.Gen.ForwardTable
import PhotVerif.Proofs.FieldInst
import Mathlib.Algebra.Order.Field.Rat
import Mathlib.Data.List.Chain
import Mathlib.Data.List.Sort
import Mathlib.Tactic.Linarith
import Mathlib.Tactic.Positivity
import Mathlib.Tactic.Ring
import Mathlib.Tactic.FieldSimp
import Mathlib.Tactic.SplitIfs

namespace PhotVerif.C20
open PhotVerif PhotVerif.Model.Isophote

/-! ### to_polar: scalar and vectorised twins -/

section polar
variable {α : Type} [Field α] [LinearOrder α] [IsStrictOrderedRing α] [MathOps α]

/-- the two implementations of `EllipseGeometry.to_polar` compute the same (radius, angle) for every input -/
theorem twins_agree (x0 y0 pa x y : α) : toPolarScalar x0 y0 pa x y = toPolarVecElem x0 y0 pa x y := by
  unfold toPolarScalar toPolarVecElem
  simp only [ge_iff_le, gt_iff_lt, decide_eq_true_eq]
  by_cases h1 : x - x0 < 0 <;> by_cases h2 : y - y0 < 0 <;>
    simp [h1, h2, not_lt.mp, le_of_lt, not_le.mpr] <;>
    (try simp [not_lt.mp h1]) <;> (try simp [not_lt.mp h2]) <;> (try simp [not_le.mpr h1, not_le.mpr h2])

end polar

/-! ### growth of the semi-major axis -/

theorem upd_geom_gt (s step : Rat) (hs : 0 < s) (hst : 0 < step) : s < updateSma false s step ∧ 0 < updateSma false s step := by
  unfold updateSma
  simp only [Bool.false_eq_true, if_false]
  constructor <;> nlinarith

theorem upd_lin_gt (s step : Rat) (hs : 0 < s) (hst : 0 < step) : s < updateSma true s step ∧ 0 < updateSma true s step := by
  unfold updateSma
  simp only [if_true]
  constructor <;> linarith

theorem upd_gt (lin : Bool) (s step : Rat) (hs : 0 < s) (hst : 0 < step) : s < updateSma lin s step ∧ 0 < updateSma lin s step := by
  cases lin
  · exact upd_geom_gt s step hs hst
  · exact upd_lin_gt s step hs hst

/-- the outward run: strictly increasing from the starting value, every later value below maxsma -/
theorem outward_spec (lin : Bool) (step : Rat) (hst : 0 < step) (maxsma : Option Rat) (ev : Nat → Ev) :
    ∀ (fuel i : Nat) (s : Rat), 0 < s →
      List.IsChain (· < ·) (outward lin step maxsma ev fuel i s) ∧
      ∀ e ∈ outward lin step maxsma ev fuel i s, s ≤ e ∧ (e = s ∨ ∀ m, maxsma = some m → e < m) := by
  intro fuel
  induction fuel with
  | zero => intro i s _; simp [outward]
  | succ n ih =>
    intro i s hs
    have hu := upd_gt lin s step hs hst
    unfold outward
    simp only
    split
    · simp
    · cases hm : maxsma with
      | none =>
        simp only
        obtain ⟨c, hall⟩ := ih (i + 1) (updateSma lin s step) hu.2
        constructor
        · cases hl : outward lin step none ev n (i + 1) (updateSma lin s step) with
          | nil => simp
          | cons a l =>
            rw [hm, hl] at c hall
            rw [List.isChain_cons_cons]
            have := (hall a List.mem_cons_self).1
            exact ⟨lt_of_lt_of_le hu.1 this, c⟩
        · intro e he
          rcases List.mem_cons.mp he with rfl | he
          · exact ⟨le_refl _, Or.inl rfl⟩
          · rw [hm] at hall
            have := hall e he
            exact ⟨le_trans (le_of_lt hu.1) this.1, Or.inr (fun m hm' => by cases hm')⟩
      | some m =>
        simp only
        split
        · simp
        · rename_i hlt
          have hlt' : updateSma lin s step < m := not_le.mp hlt
          obtain ⟨c, hall⟩ := ih (i + 1) (updateSma lin s step) hu.2
          rw [hm] at c hall
          constructor
          · cases hl : outward lin step (some m) ev n (i + 1) (updateSma lin s step) with
            | nil => simp
            | cons a l =>
              rw [hl] at c hall
              rw [List.isChain_cons_cons]
              exact ⟨lt_of_lt_of_le hu.1 (hall a List.mem_cons_self).1, c⟩
          · intro e he
            rcases List.mem_cons.mp he with rfl | he
            · exact ⟨le_refl _, Or.inl rfl⟩
            · have := hall e he
              refine ⟨le_trans (le_of_lt hu.1) this.1, Or.inr ?_⟩
              intro m' hm'
              cases hm'
              rcases this.2 with h | h
              · rw [h]; exact hlt'
              · exact h m rfl

/-- one inward step: strictly smaller and still positive, for the reset step of either growth mode (while above 0) -/
theorem inward_spec (lin : Bool) (istep lo : Rat) (hlo : 0 < lo) (ev : Nat → Ev)
    (hdec : ∀ s, lo < s → updateSma lin s istep < s) :
    ∀ (fuel i : Nat) (s : Rat), lo < s →
      List.IsChain (· > ·) (inwardLoop lin istep lo ev fuel i s) ∧
      ∀ e ∈ inwardLoop lin istep lo ev fuel i s, e ≤ s ∧ lo < e := by
  intro fuel
  induction fuel with
  | zero => intro i s _; simp [inwardLoop]
  | succ n ih =>
    intro i s hs
    unfold inwardLoop
    simp only
    split
    · simp [hs]
    · split
      · simp [hs]
      · rename_i hgt
        have hgt' : lo < updateSma lin s istep := not_le.mp hgt
        obtain ⟨c, hall⟩ := ih (i + 1) (updateSma lin s istep) hgt'
        have hd := hdec s hs
        constructor
        · cases hl : inwardLoop lin istep lo ev n (i + 1) (updateSma lin s istep) with
          | nil => simp
          | cons a l =>
            rw [hl] at c hall
            rw [List.isChain_cons_cons]
            exact ⟨lt_of_le_of_lt (hall a List.mem_cons_self).1 hd, c⟩
        · intro e he
          rcases List.mem_cons.mp he with rfl | he
          · exact ⟨le_refl _, hs⟩
          · have := hall e he
            exact ⟨le_trans this.1 (le_of_lt hd), this.2⟩

theorem reset_dec (lin : Bool) (step : Rat) (hst : 0 < step) (s : Rat) (hs : 0 < s) :
    updateSma lin s (resetSma lin 0 step).2 < s := by
  cases lin
  · simp only [updateSma, resetSma, Bool.false_eq_true, if_false]
    have h1 : (0 : Rat) < 1 + step := by linarith
    have : 1 + (1 / (1 + step) - 1) = 1 / (1 + step) := by ring
    rw [this]
    have : 1 / (1 + step) < 1 := by rw [div_lt_one h1]; linarith
    nlinarith
  · simp only [updateSma, resetSma, if_true]
    linarith

theorem reset_step_indep (lin : Bool) (a b step : Rat) : (resetSma lin a step).2 = (resetSma lin b step).2 := by
  cases lin <;> simp [resetSma]

theorem reset_lt (lin : Bool) (step : Rat) (hst : 0 < step) (s : Rat) (hs : 0 < s) : (resetSma lin s step).1 < s := by
  cases lin
  · simp only [resetSma, Bool.false_eq_true, if_false]
    have h1 : (0 : Rat) < 1 + step := by linarith
    have : 1 / (1 + step) < 1 := by rw [div_lt_one h1]; linarith
    nlinarith
  · simp only [resetSma, if_true]; linarith

/-- MAIN (range): with the inward guard, every fitted semi-major axis other than the starting value lies strictly
    between max(minsma, 1/2) and maxsma; the central pixel (sma = 0) appears only for minsma = 0 -/
theorem fitted_in_range (c : Cfg) (evOut evIn : Nat → Ev) (fuel : Nat) (hg : c.guardFirstInward = true)
    (hst : 0 < c.step) (hs0 : 0 < c.sma0) (e : Rat) (he : e ∈ fittedSmas c evOut evIn fuel) :
    (e = 0 ∧ c.minsma = 0) ∨ e = c.sma0 ∨
      (c.sma0 < e ∧ ∀ m, c.maxsma = some m → e < m) ∨ (max c.minsma (1 / 2) < e ∧ e < c.sma0) := by
  unfold fittedSmas at he
  simp only [List.mem_append] at he
  rcases he with (he | he) | he
  · have := (outward_spec c.linear c.step hst c.maxsma evOut fuel 0 c.sma0 hs0).2 e he
    rcases this.2 with h | h
    · exact Or.inr (Or.inl h)
    · rcases eq_or_lt_of_le this.1 with h' | h'
      · exact Or.inr (Or.inl h'.symm)
      · exact Or.inr (Or.inr (Or.inl ⟨h', h⟩))
  · rw [hg] at he
    simp only [Bool.true_and] at he
    split at he
    · cases he
    · rename_i hlo
      have hlo' : max c.minsma (1 / 2) < (resetSma c.linear c.sma0 c.step).1 := by
        simpa using hlo
      have hpos : (0 : Rat) < max c.minsma (1 / 2) := lt_of_lt_of_le (by norm_num) (le_max_right _ _)
      have := (inward_spec c.linear (resetSma c.linear c.sma0 c.step).2 _ hpos evIn
        (fun s hs => by
          rw [reset_step_indep c.linear c.sma0 0 c.step]
          exact reset_dec c.linear c.step hst s (lt_trans hpos hs)) fuel 0 _ hlo').2 e he
      exact Or.inr (Or.inr (Or.inr ⟨this.2, lt_of_le_of_lt this.1 (reset_lt c.linear c.step hst c.sma0 hs0)⟩))
  · split at he
    · rename_i h0
      simp only [List.mem_singleton] at he
      exact Or.inl ⟨he, h0⟩
    · cases he

/-- MAIN (order): the returned list is sorted and has no repeated semi-major axis -/
theorem sorted_strict (c : Cfg) (evOut evIn : Nat → Ev) (fuel : Nat) (hg : c.guardFirstInward = true)
    (hst : 0 < c.step) (hs0 : 0 < c.sma0) :
    (sortedSmas c evOut evIn fuel).Pairwise (· < ·) := by
  -- the unsorted list has no duplicates: outward values are ≥ sma0 and strictly increasing, inward values are
  -- < sma0, > 0 and strictly decreasing, the central pixel is 0
  have hout := outward_spec c.linear c.step hst c.maxsma evOut fuel 0 c.sma0 hs0
  have hpos : (0 : Rat) < max c.minsma (1 / 2) := lt_of_lt_of_le (by norm_num) (le_max_right _ _)
  have hnodup : (fittedSmas c evOut evIn fuel).Nodup := by
    unfold fittedSmas
    simp only
    rw [List.nodup_append, List.nodup_append]
    have hO : (outward c.linear c.step c.maxsma evOut fuel 0 c.sma0).Nodup := by
      have := List.isChain_iff_pairwise.mp hout.1
      exact this.imp (fun h => ne_of_lt h)
    have hI : ∀ e ∈ (if c.guardFirstInward && decide ((resetSma c.linear c.sma0 c.step).1 ≤ max c.minsma (1 / 2)) then []
        else inwardLoop c.linear (resetSma c.linear c.sma0 c.step).2 (max c.minsma (1 / 2)) evIn fuel 0
          (resetSma c.linear c.sma0 c.step).1), 0 < e ∧ e < c.sma0 := by
      intro e he
      rw [hg] at he
      simp only [Bool.true_and] at he
      split at he
      · cases he
      · rename_i hlo
        have hlo' : max c.minsma (1 / 2) < (resetSma c.linear c.sma0 c.step).1 := by simpa using hlo
        have := (inward_spec c.linear (resetSma c.linear c.sma0 c.step).2 _ hpos evIn
          (fun s hs => by
            rw [reset_step_indep c.linear c.sma0 0 c.step]
            exact reset_dec c.linear c.step hst s (lt_trans hpos hs)) fuel 0 _ hlo').2 e he
        exact ⟨lt_trans hpos this.2, lt_of_le_of_lt this.1 (reset_lt c.linear c.step hst c.sma0 hs0)⟩
    have hIn : (if c.guardFirstInward && decide ((resetSma c.linear c.sma0 c.step).1 ≤ max c.minsma (1 / 2)) then []
        else inwardLoop c.linear (resetSma c.linear c.sma0 c.step).2 (max c.minsma (1 / 2)) evIn fuel 0
          (resetSma c.linear c.sma0 c.step).1).Nodup := by
      rw [hg]
      simp only [Bool.true_and]
      split
      · exact List.nodup_nil
      · rename_i hlo
        have hlo' : max c.minsma (1 / 2) < (resetSma c.linear c.sma0 c.step).1 := by simpa using hlo
        have := (inward_spec c.linear (resetSma c.linear c.sma0 c.step).2 _ hpos evIn
          (fun s hs => by
            rw [reset_step_indep c.linear c.sma0 0 c.step]
            exact reset_dec c.linear c.step hst s (lt_trans hpos hs)) fuel 0 _ hlo').1
        exact (List.isChain_iff_pairwise.mp this).imp (fun h => ne_of_gt h)
    refine ⟨⟨hO, hIn, ?_⟩, ?_, ?_⟩
    · intro a ha b hb hab
      have h1 := (hout.2 a ha).1
      have h2 := (hI b hb).2
      rw [hab] at h1; linarith
    · split
      · exact List.nodup_singleton _
      · exact List.nodup_nil
    · intro a ha b hb hab
      have hb0 : b = 0 := by
        split at hb
        · simpa using hb
        · cases hb
      rcases List.mem_append.mp ha with ha | ha
      · have := (hout.2 a ha).1; rw [hab, hb0] at this; linarith
      · have := (hI a ha).1; rw [hab, hb0] at this; linarith
  unfold sortedSmas
  have hs : (List.mergeSort (fittedSmas c evOut evIn fuel) fun a b => decide (a ≤ b)).Pairwise (fun a b => decide (a ≤ b) = true) :=
    List.pairwise_mergeSort (le := fun a b => decide (a ≤ b))
      (fun a b c h1 h2 => by simp only [decide_eq_true_eq] at *; exact le_trans h1 h2)
      (fun a b => by simp only [Bool.or_eq_true, decide_eq_true_eq]; exact le_total a b) _
  have hn : (List.mergeSort (fittedSmas c evOut evIn fuel) fun a b => decide (a ≤ b)).Nodup :=
    (List.mergeSort_perm _ _).nodup_iff.mpr hnodup
  exact (hs.and hn).imp (fun ⟨h1, h2⟩ => lt_of_le_of_ne (by simpa using h1) h2)

/-- without the guard the first inward value can lie below minsma (defect F32): sma0 = 10, step = 0.1, minsma = 9.5 -/
example : (9 + 1/11 : Rat) ∈ fittedSmas ⟨10, 1/10, false, 19/2, some 14, false⟩ (fun _ => .ok) (fun _ => .ok) 20 := by
  decide +kernel

/-- the growth loop in the source has the guard (regenerated from ellipse.py on every run) -/
theorem source_has_inward_guard : Gen.IsophoteTable.guardsFirstInward = true ∧
    Gen.IsophoteTable.outwardBreaksAtMaxsma = true ∧ Gen.IsophoteTable.inwardBreaksAtMinsma = true ∧
    Gen.IsophoteTable.sortsResult = true ∧ Gen.IsophoteTable.fixVectorOrder = true ∧
    Gen.IsophoteTable.freeCoeffsMaskedByFix = true ∧ Gen.IsophoteTable.growthFormulas = true := by decide

/-! ### fixed parameters are never corrected -/

theorem choose_mem (amps : List Rat) (fixed : List Bool) (k : Nat) (h : chooseCorrector amps fixed = some k) :
    k < amps.length ∧ fixed.getD k false = false := by
  unfold chooseCorrector at h
  simp only at h
  have key : ∀ (l : List Nat) (init : Option Nat) (P : Nat → Prop), (∀ i ∈ l, P i) → (∀ b, init = some b → P b) →
      ∀ r, l.foldl (fun best i => match best with
        | none => some i
        | some b => if absQ (amps.getD i 0) > absQ (amps.getD b 0) then some i else some b) init = some r → P r := by
    intro l
    induction l with
    | nil => intro init P _ hi r hr; exact hi r hr
    | cons a l ih =>
      intro init P hl hi r hr
      simp only [List.foldl_cons] at hr
      apply ih _ P (fun i hi' => hl i (List.mem_cons_of_mem _ hi')) _ r hr
      intro b hb
      cases init with
      | none => simp at hb; rw [← hb]; exact hl a List.mem_cons_self
      | some b0 =>
        simp only at hb
        split at hb
        · cases hb; exact hl a List.mem_cons_self
        · cases hb; exact hi _ rfl
  have := key _ none (fun i => i < amps.length ∧ fixed.getD i false = false)
    (fun i hi => by
      simp only [List.mem_filter, List.mem_range, Bool.not_eq_true'] at hi
      exact hi) (fun b hb => by cases hb) k h
  exact this

theorem check_id_of_pos (h mx mn : Rat) (g : Geo) (he : 0 < g.eps) : checkConditions h mx mn g = g := by
  unfold checkConditions
  simp only
  rw [if_neg (not_lt.mpr (le_of_lt he)), if_neg (ne_of_gt he)]

theorem check_center (h mx mn : Rat) (g : Geo) : (checkConditions h mx mn g).x0 = g.x0 ∧ (checkConditions h mx mn g).y0 = g.y0 := by
  unfold checkConditions
  simp only
  split_ifs <;> simp

/-- MAIN (fix flags, centre): through any number of iterations, with any harmonic amplitudes and any proposed
    corrections, a fixed centre keeps exactly its initial value -/
theorem iterate_honours_fix_center (h mx mn : Rat) (fp fe : Bool) (oracle : Nat → List Rat × (Rat × Rat × Rat × Rat)) (n : Nat) (g : Geo) :
    (iterate h mx mn (fixVector true fp fe) oracle n g).x0 = g.x0 ∧ (iterate h mx mn (fixVector true fp fe) oracle n g).y0 = g.y0 := by
  induction n generalizing g with
  | zero => simp [iterate]
  | succ n ih =>
    simp only [iterate]
    cases hc : chooseCorrector (oracle n).1 (fixVector true fp fe) with
    | none => simp
    | some k =>
      simp only
      have hk := (choose_mem _ _ k hc).2
      have := ih (checkConditions h mx mn (applyCorrector g k (oracle n).2.1 (oracle n).2.2.1 (oracle n).2.2.2.1 (oracle n).2.2.2.2))
      rw [this.1, this.2]
      have hcc := check_center h mx mn (applyCorrector g k (oracle n).2.1 (oracle n).2.2.1 (oracle n).2.2.2.1 (oracle n).2.2.2.2)
      rw [hcc.1, hcc.2]
      match k, hk with
      | 0, hk => simp [fixVector] at hk
      | 1, hk => simp [fixVector] at hk
      | 2, _ => simp [applyCorrector]
      | 3, _ => simp [applyCorrector]
      | (k + 4), _ => simp [applyCorrector]

/-- MAIN (fix flags, ellipticity and position angle): a fixed positive ellipticity keeps exactly its value, and then a
    fixed position angle does too (no zero crossing can occur) -/
theorem iterate_honours_fix_eps (h mx mn : Rat) (fc fp : Bool) (oracle : Nat → List Rat × (Rat × Rat × Rat × Rat)) (n : Nat) (g : Geo)
    (he : 0 < g.eps) :
    (iterate h mx mn (fixVector fc fp true) oracle n g).eps = g.eps ∧
    (fp = true → (iterate h mx mn (fixVector fc fp true) oracle n g).pa = g.pa) := by
  induction n generalizing g with
  | zero => simp [iterate]
  | succ n ih =>
    simp only [iterate]
    cases hc : chooseCorrector (oracle n).1 (fixVector fc fp true) with
    | none => simp
    | some k =>
      simp only
      have hk := (choose_mem _ _ k hc).2
      have hkeep : (applyCorrector g k (oracle n).2.1 (oracle n).2.2.1 (oracle n).2.2.2.1 (oracle n).2.2.2.2).eps = g.eps := by
        match k, hk with
        | 0, _ => simp [applyCorrector]
        | 1, _ => simp [applyCorrector]
        | 2, _ => simp [applyCorrector]
        | 3, hk => simp [fixVector] at hk
        | (k + 4), _ => simp [applyCorrector]
      have hpos : 0 < (applyCorrector g k (oracle n).2.1 (oracle n).2.2.1 (oracle n).2.2.2.1 (oracle n).2.2.2.2).eps := by rw [hkeep]; exact he
      rw [check_id_of_pos h mx mn _ hpos]
      have := ih _ hpos
      refine ⟨by rw [this.1, hkeep], fun hfp => ?_⟩
      rw [this.2 hfp]
      subst hfp
      match k, hk with
      | 0, _ => simp [applyCorrector]
      | 1, _ => simp [applyCorrector]
      | 2, hk => simp [fixVector] at hk
      | 3, _ => simp [applyCorrector]
      | (k + 4), _ => simp [applyCorrector]

/-- with a free ellipticity a fixed position angle can only change by quarter turns (the re-labelling of an ellipse
    whose ellipticity crossed zero): it stays in the same axis frame -/
theorem iterate_fix_pa_mod_quarter_turn (h mx mn : Rat) (fc fe : Bool) (oracle : Nat → List Rat × (Rat × Rat × Rat × Rat)) (n : Nat) (g : Geo) :
    ∃ k : Int, (iterate h mx mn (fixVector fc true fe) oracle n g).pa = g.pa + k * h := by
  induction n generalizing g with
  | zero => exact ⟨0, by simp [iterate]⟩
  | succ n ih =>
    simp only [iterate]
    cases hc : chooseCorrector (oracle n).1 (fixVector fc true fe) with
    | none => exact ⟨0, by simp⟩
    | some k =>
      simp only
      have hk := (choose_mem _ _ k hc).2
      have hkeep : (applyCorrector g k (oracle n).2.1 (oracle n).2.2.1 (oracle n).2.2.2.1 (oracle n).2.2.2.2).pa = g.pa := by
        match k, hk with
        | 0, _ => simp [applyCorrector]
        | 1, _ => simp [applyCorrector]
        | 2, hk => simp [fixVector] at hk
        | 3, _ => simp [applyCorrector]
        | (k + 4), _ => simp [applyCorrector]
      obtain ⟨j, hj⟩ := ih (checkConditions h mx mn (applyCorrector g k (oracle n).2.1 (oracle n).2.2.1 (oracle n).2.2.2.1 (oracle n).2.2.2.2))
      have hc2 : ∃ m : Int, (checkConditions h mx mn (applyCorrector g k (oracle n).2.1 (oracle n).2.2.1 (oracle n).2.2.2.1 (oracle n).2.2.2.2)).pa
          = g.pa + m * h := by
        unfold checkConditions
        simp only
        rw [← hkeep]
        split_ifs
        · exact ⟨1, by simp⟩
        · exact ⟨1, by simp⟩
        · exact ⟨-1, by simp; ring⟩
        · exact ⟨-1, by simp; ring⟩
        · exact ⟨0, by simp⟩
        · exact ⟨0, by simp⟩
      obtain ⟨m, hm⟩ := hc2
      exact ⟨j + m, by rw [hj, hm]; push_cast; ring⟩

/-! ### elliptical radius -/

/-- r(θ)² = sma²(1−eps)² / ((1−eps)² cos² + sin²): the denominator lies between (1−eps)² and 1, so the radius
    lies between the semi-minor axis sma(1−eps) and the semi-major axis sma -/
theorem radius_between_axes (sma eps c s : Rat) (h : c * c + s * s = 1) (he0 : 0 ≤ eps) (he1 : eps < 1) :
    (1 - eps) * (1 - eps) ≤ (radius2 sma eps c s).2 ∧ (radius2 sma eps c s).2 ≤ 1 := by
  unfold radius2
  simp only
  have hs : s * s = 1 - c * c := by linarith
  have hc0 : 0 ≤ c * c := mul_self_nonneg c
  have hc1 : c * c ≤ 1 := by nlinarith [mul_self_nonneg s]
  have hq : 0 ≤ (1 - eps) * (1 - eps) := mul_self_nonneg _
  have hq1 : (1 - eps) * (1 - eps) ≤ 1 := by nlinarith
  constructor <;> nlinarith

/-! ### the growth formulas translated from geometry.py (T-py) are the model's -/

/-- T-py tie: `EllipseGeometry.update_sma`, translated from geometry.py on every run, is the model's `updateSma` -/
theorem generated_updateSma [MathOps Rat] (lin : Bool) (sma step : Rat) :
    Gen.EGeom.updateSma (α := Rat) ⟨sma, lin⟩ step = updateSma lin sma step := by
  unfold Gen.EGeom.updateSma updateSma
  have h1 : (1.0 : Rat) = 1 := by norm_num
  cases lin <;> simp [h1]

theorem generated_resetSma [MathOps Rat] (lin : Bool) (sma step : Rat) :
    Gen.EGeom.resetSma (α := Rat) ⟨sma, lin⟩ step = resetSma lin sma step := by
  unfold Gen.EGeom.resetSma resetSma
  have h1 : (1.0 : Rat) = 1 := by norm_num
  cases lin <;> simp [h1]

/-- TABLE OBLIGATION: see `Gen/ForwardTable.lean` - every delegating call in the isophote modules passes on each value the caller
    holds under the callee's own parameter name (parameters, locals, `self.<name>` attributes).  Seed C20-r7 dropped the local
    `fixed_parameters` from `minimum_amplitude_sample.update(...)`, which silently frees every fixed parameter. -/
theorem no_dropped_arguments : Gen.ForwardTable.droppedIn Gen.ForwardTable.scopeC20 =
    -- intended: the central-pixel call `fit_isophote(0.0, ...)` does not use `linear`; the gradient sample is built from the
    -- individual geometry fields at a different sma, not from the geometry object
    [("isophote/ellipse.py", "fit_image", "fit_isophote", "linear"),
     ("isophote/sample.py", "EllipseSample._get_gradient", "EllipseSample", "geometry")] := by decide

end PhotVerif.C20
