/-
  C13 — PSF/PRF models are flux-normalised and interpolate their data faithfully
  (the parts that are algebra: telescoping normalisation of pixel-integrated PRFs over an abstract CDF,
  rotation identity, linearity, sample-point transform, bilinear weights).
-/
import PhotVerif.Model.Psf
import Mathlib.Algebra.Order.Field.Rat
import Mathlib.Algebra.BigOperators.Group.Finset.Basic
import Mathlib.Algebra.BigOperators.Intervals
import Mathlib.Tactic.FieldSimp
import Mathlib.Tactic.Ring
import Mathlib.Tactic.Linarith
import Mathlib.Tactic.Abel
import Mathlib.Algebra.BigOperators.Ring.Finset

namespace PhotVerif.C13
open PhotVerif.Model.Psf

/-! ### pixel-integrated PRFs sum to their flux -/

/-- a pixel-integrated 1-D profile is a difference of a cumulative function `F` across the pixel; over any run
    of pixels a..a+n−1 the differences telescope — for EVERY `F`, sub-pixel centre `c` and width -/
theorem prf_telescopes {R : Type} [AddCommGroup R] (Fc : Int → R) (a : Int) (n : Nat) :
    (Finset.range n).sum (fun k => Fc (a + k + 1) - Fc (a + k)) = Fc (a + n) - Fc a := by
  induction n with
  | zero => simp
  | succ n ih =>
    rw [Finset.sum_range_succ, ih]
    have : a + ((n + 1 : Nat) : Int) = a + n + 1 := by push_cast; ring
    rw [this]; abel

/-- 2-D separable PRF (axis-aligned Gaussian PRFs: `flux · ΔFx(i) · ΔFy(j)`): the sum over a pixel rectangle
    is flux · (Fx(b) − Fx(a)) · (Fy(d) − Fy(c)), so it tends to `flux` as the window grows whenever Fx, Fy
    tend to 0 and 1 (the meaning of "sums to its flux over an unbounded pixel grid") -/
theorem prf2d_window_sum (Fx Fy : Int → Rat) (flux : Rat) (a c : Int) (n m : Nat) :
    (Finset.range m).sum (fun j => (Finset.range n).sum (fun i =>
        flux * (Fx (a + i + 1) - Fx (a + i)) * (Fy (c + j + 1) - Fy (c + j))))
      = flux * (Fx (a + n) - Fx a) * (Fy (c + m) - Fy c) := by
  have h1 : ∀ j : Nat, (Finset.range n).sum (fun i =>
      flux * (Fx (a + i + 1) - Fx (a + i)) * (Fy (c + j + 1) - Fy (c + j)))
      = flux * (Fx (a + n) - Fx a) * (Fy (c + j + 1) - Fy (c + j)) := by
    intro j
    rw [← prf_telescopes Fx a n, Finset.mul_sum, Finset.sum_mul]
  simp only [h1]
  rw [← Finset.mul_sum, prf_telescopes Fy c m]

/-- the circular Gaussian equals the elliptical one with equal widths at ANY rotation: the exponent is
    rotation invariant (given cos² + sin² = 1) -/
theorem rotation_invariant_radius (x y c s : Rat) (h : c * c + s * s = 1) :
    (x * c + y * s) * (x * c + y * s) + (-(x * s) + y * c) * (-(x * s) + y * c) = x * x + y * y := by
  have : (x * c + y * s) * (x * c + y * s) + (-(x * s) + y * c) * (-(x * s) + y * c)
      = (x * x + y * y) * (c * c + s * s) := by ring
  rw [this, h]; ring

/-- sigma- and FWHM-parametrised forms agree: with fwhm = k·sigma the exponents coincide -/
theorem sigma_fwhm_forms_agree (r2 sigma k : Rat) (hs : sigma ≠ 0) (hk : k ≠ 0) :
    r2 / (2 * sigma * sigma) = r2 * (k * k) / (2 * (k * sigma) * (k * sigma)) := by
  field_simp

/-! ### ImagePSF reproduces its samples -/

/-- at x = x0 + (i − origin)/oversampling the array coordinate is exactly the sample index i -/
theorem imagepsf_sample_point (os origin x0 : Rat) (i : Int) (hos : os ≠ 0) :
    arrayCoord os origin (x0 + ((i : Rat) - origin) / os) x0 = i := by
  unfold arrayCoord
  field_simp
  ring

/-! ### the default origin centres the array on (x_0, y_0), for odd and even sample counts -/

/-- TABLE OBLIGATION (constants regenerated from `GriddedPSFModel.origin` and the `ImagePSF.origin` setter): the default origin is
    `(n - 1) / 2` for both models (seed C13-r8 wrote `n // 2`, which is half a sample off for an even n) -/
theorem default_origin_constants :
    Gen.PsfOrigin.griddedSub = 1 ∧ Gen.PsfOrigin.griddedDen = 2 ∧ Gen.PsfOrigin.imageSub = 1 ∧ Gen.PsfOrigin.imageDen = 2 := by decide

theorem griddedOrigin_eq (n : Nat) : griddedOrigin n = ((n : Rat) - 1) / 2 := by
  simp [griddedOrigin, defaultOrigin, Gen.PsfOrigin.griddedSub, Gen.PsfOrigin.griddedDen]

theorem imageOrigin_eq (n : Nat) : imageOrigin n = ((n : Rat) - 1) / 2 := by
  simp [imageOrigin, defaultOrigin, Gen.PsfOrigin.imageSub, Gen.PsfOrigin.imageDen]

/-- with the default origin the samples sit symmetrically about x_0: sample i and sample n-1-i are at opposite offsets, for every n
    (odd or even) and every oversampling -/
theorem default_origin_symmetric (os : Rat) (n i : Nat) (hi : i < n) :
    sampleOffset os (griddedOrigin n) (n - 1 - i) = - sampleOffset os (griddedOrigin n) i := by
  rw [griddedOrigin_eq]
  unfold sampleOffset
  have h : ((n - 1 - i : Nat) : Rat) = (n : Rat) - 1 - i := by
    have : i ≤ n - 1 := by omega
    rw [Nat.sub_sub, Nat.cast_sub (by omega)]; push_cast; ring
  rw [h]; ring

/-- for an odd number of samples the middle sample is exactly at x_0 -/
theorem default_origin_centre_sample (os : Rat) (k : Nat) : sampleOffset os (griddedOrigin (2 * k + 1)) k = 0 := by
  rw [griddedOrigin_eq]; unfold sampleOffset; push_cast; ring

/-- the sample offsets and the array-coordinate transform of `evaluate` are inverse to each other: at x_0 + offset(i) the array
    coordinate is i (so the model returns flux x the stored sample there) -/
theorem default_origin_round_trip (os x0 : Rat) (n i : Nat) (hos : os ≠ 0) :
    arrayCoord os (griddedOrigin n) (x0 + sampleOffset os (griddedOrigin n) i) x0 = i := by
  unfold arrayCoord sampleOffset
  field_simp
  ring

-- non-vacuity: 8 samples → origin 7/2 (not 4); samples 0 and 7 at offsets ∓ 7/2
example : griddedOrigin 8 = 7 / 2 ∧ sampleOffset 1 (griddedOrigin 8) 0 = -(7 / 2) ∧ sampleOffset 1 (griddedOrigin 8) 7 = 7 / 2 := by
  refine ⟨?_, ?_, ?_⟩ <;> simp [griddedOrigin_eq, sampleOffset] <;> norm_num

/-- interior sample points are valid (not replaced by fill_value); points beyond the array are invalid -/
theorem sample_valid_iff (n : Nat) (i : Int) : isInvalid n (i : Rat) = false ↔ (0 ≤ i ∧ i ≤ (n : Int) - 1) := by
  unfold isInvalid
  simp only [decide_eq_false_iff_not, not_or, not_lt]
  constructor
  · rintro ⟨h1, h2⟩
    constructor
    · exact_mod_cast h1
    · have : (i : Rat) ≤ ((n : Int) - 1 : Int) := by push_cast; linarith
      exact_mod_cast this
  · rintro ⟨h1, h2⟩
    constructor
    · exact_mod_cast h1
    · have : (i : Rat) ≤ ((n : Int) - 1 : Int) := by exact_mod_cast h2
      push_cast at this; linarith

/-! ### GriddedPSFModel: bilinear blend inside a cell, nearest edge outside -/

theorem clipR_mem (x lo hi : Rat) (h : lo ≤ hi) : lo ≤ clipR x lo hi ∧ clipR x lo hi ≤ hi := by
  unfold clipR
  constructor
  · exact le_min (le_max_right _ _) h
  · exact min_le_right _ _

theorem clipR_of_mem (x lo hi : Rat) (h1 : lo ≤ x) (h2 : x ≤ hi) : clipR x lo hi = x := by
  unfold clipR; rw [max_eq_left h1, min_eq_left h2]

/-- inside a proper cell the four weights are non-negative and sum to one, for every (also exterior, clamped) position -/
theorem bilinear_weights_convex (x0 x1 y0 y1 x y : Rat) (hx : x0 < x1) (hy : y0 < y1) :
    let w := bilinearWeights x0 x1 y0 y1 x y
    0 ≤ w.1 ∧ 0 ≤ w.2.1 ∧ 0 ≤ w.2.2.1 ∧ 0 ≤ w.2.2.2 ∧ w.1 + w.2.1 + w.2.2.1 + w.2.2.2 = 1 := by
  unfold bilinearWeights
  rw [if_neg (by rintro (h | h) <;> linarith)]
  simp only
  obtain ⟨ha, hb⟩ := clipR_mem x x0 x1 (le_of_lt hx)
  obtain ⟨hc, hd⟩ := clipR_mem y y0 y1 (le_of_lt hy)
  have hn : 0 < (x1 - x0) * (y1 - y0) := mul_pos (by linarith) (by linarith)
  refine ⟨?_, ?_, ?_, ?_, ?_⟩
  · exact div_nonneg (mul_nonneg (by linarith) (by linarith)) (le_of_lt hn)
  · exact div_nonneg (mul_nonneg (by linarith) (by linarith)) (le_of_lt hn)
  · exact div_nonneg (mul_nonneg (by linarith) (by linarith)) (le_of_lt hn)
  · exact div_nonneg (mul_nonneg (by linarith) (by linarith)) (le_of_lt hn)
  · have hx' : x1 - x0 ≠ 0 := by linarith
    have hy' : y1 - y0 ≠ 0 := by linarith
    field_simp
    ring

/-- at a grid node the weight of that node is 1 and the others 0: the model equals the stored ePSF there -/
theorem gridded_at_node (x0 x1 y0 y1 : Rat) (hx : x0 < x1) (hy : y0 < y1) :
    bilinearWeights x0 x1 y0 y1 x0 y0 = (1, 0, 0, 0) ∧ bilinearWeights x0 x1 y0 y1 x1 y1 = (0, 0, 0, 1) := by
  have hne : ¬ (x1 = x0 ∨ y1 = y0) := by rintro (h | h) <;> linarith
  have hx' : x1 - x0 ≠ 0 := by linarith
  have hy' : y1 - y0 ≠ 0 := by linarith
  constructor
  · unfold bilinearWeights
    rw [if_neg hne]
    simp only
    rw [clipR_of_mem x0 x0 x1 (le_refl _) (le_of_lt hx), clipR_of_mem y0 y0 y1 (le_refl _) (le_of_lt hy)]
    simp only [sub_self, zero_mul, mul_zero, zero_div, Prod.mk.injEq, and_true]
    field_simp
  · unfold bilinearWeights
    rw [if_neg hne]
    simp only
    rw [clipR_of_mem x1 x0 x1 (le_of_lt hx) (le_refl _), clipR_of_mem y1 y0 y1 (le_of_lt hy) (le_refl _)]
    simp only [sub_self, zero_mul, mul_zero, zero_div, Prod.mk.injEq, true_and]
    field_simp

/-- inside the cell the weights are the bilinear ones (no clamping) -/
theorem gridded_bilinear_in_cell (x0 x1 y0 y1 x y : Rat) (hx : x0 < x1) (hy : y0 < y1)
    (h1 : x0 ≤ x) (h2 : x ≤ x1) (h3 : y0 ≤ y) (h4 : y ≤ y1) :
    bilinearWeights x0 x1 y0 y1 x y =
      ((x1 - x) * (y1 - y) / ((x1 - x0) * (y1 - y0)), (x - x0) * (y1 - y) / ((x1 - x0) * (y1 - y0)),
       (x1 - x) * (y - y0) / ((x1 - x0) * (y1 - y0)), (x - x0) * (y - y0) / ((x1 - x0) * (y1 - y0))) := by
  unfold bilinearWeights
  rw [if_neg (by rintro (h | h) <;> linarith)]
  simp only
  rw [clipR_of_mem x x0 x1 h1 h2, clipR_of_mem y y0 y1 h3 h4]

/-- outside the grid the position is clamped: the weights are those of the nearest point of the cell -/
theorem gridded_clamped_outside (x0 x1 y0 y1 x y : Rat) :
    bilinearWeights x0 x1 y0 y1 x y = bilinearWeights x0 x1 y0 y1 (clipR x x0 x1) (clipR y y0 y1) := by
  have idem : ∀ (v lo hi : Rat), clipR (clipR v lo hi) lo hi = clipR v lo hi := by
    intro v lo hi
    unfold clipR
    rcases le_total lo hi with h | h
    · rw [max_eq_left (le_min (le_max_right _ _) h), min_eq_left (min_le_right _ _)]
    · have : min (max v lo) hi = hi := min_eq_right (le_trans h (le_max_right _ _))
      rw [this, max_eq_right h, min_eq_right h]
  unfold bilinearWeights frac1
  simp only [idem]

/-- a single-row/column grid (zero-width cell) still gives weights that sum to one and are finite -/
theorem degenerate_cell_weights (x0 y0 y1 x y : Rat) (hy : y0 < y1) :
    let w := bilinearWeights x0 x0 y0 y1 x y
    w.1 + w.2.1 + w.2.2.1 + w.2.2.2 = 1 ∧ w.2.1 = 0 ∧ w.2.2.2 = 0 := by
  unfold bilinearWeights frac1
  simp only [true_or, if_true]
  refine ⟨by ring, by ring, by ring⟩

-- non-vacuity
example : bilinearWeights 0 10 0 20 (5/2) 5 = (9/16, 3/16, 3/16, 1/16) := by decide +kernel
example : bounds1 [0, 10, 20] 12 = (10, 20) ∧ bounds1 [0, 10, 20] (-3) = (0, 10) ∧ bounds1 [0, 10, 20] 99 = (10, 20) := by
  decide +kernel

end PhotVerif.C13
