/-
  C07 — SourceCatalog measurements depend only on the pixels of their own segment.
  The model (Model/Catalog.lean) defines each column as an explicit formula over the pixel list of the
  label (that IS the defining formula of the property statement); here: locality, blindness to masked
  pixels, invariance under relabelling, row-order freedom and the all-masked rule.
-/
import PhotVerif.Model.Catalog
import Mathlib.Data.List.Basic
import Mathlib.Data.List.Perm.Basic

namespace PhotVerif.C07
open PhotVerif.Model PhotVerif.Model.Segm PhotVerif.Model.Catalog

/-- two inputs agree on the segment of label `l` -/
structure AgreeOn (I J : Inputs) (l : Nat) : Prop where
  nx : J.nx = I.nx
  pixels : segPix J l = segPix I l
  seg : ∀ p ∈ segPix I l, J.seg p = I.seg p
  data : ∀ p ∈ segPix I l, J.data p = I.data p
  conv : ∀ p ∈ segPix I l, J.conv p = I.conv p
  mask : ∀ p ∈ segPix I l, J.mask p = I.mask p
  err : (I.err.isSome = J.err.isSome) ∧ ∀ e e', I.err = some e → J.err = some e' → ∀ p ∈ segPix I l, e' p = e p
  bkg : (I.bkg.isSome = J.bkg.isSome) ∧ ∀ b b', I.bkg = some b → J.bkg = some b' → ∀ p ∈ segPix I l, b' p = b p

theorem footprint_congr (I J : Inputs) (l : Nat) (h : AgreeOn I J l) : footprint J l = footprint I l := by
  unfold footprint
  rw [h.pixels]
  apply List.filter_congr
  intro p hp
  rw [h.mask p hp, h.data p hp]

theorem footprint_sub (I : Inputs) (l : Nat) : ∀ p ∈ footprint I l, p ∈ segPix I l := by
  intro p hp; unfold footprint at hp; exact (List.mem_filter.mp hp).1

theorem sumOver_congr (f g : Nat → V) (ps : List Nat) (h : ∀ p ∈ ps, g p = f p) : sumOver g ps = sumOver f ps := by
  unfold sumOver
  congr 1
  apply List.map_congr_left
  intro p hp; rw [h p hp]

/-- MAIN (locality): every modelled column of label `l` is the same for two inputs that agree on the
    pixels carrying `l` — whatever differs elsewhere in the image (other sources, background, other labels
    inside the bounding box). -/
theorem row_local (I J : Inputs) (l : Nat) (h : AgreeOn I J l) :
    segmentFlux J l = segmentFlux I l ∧ area J l = area I l ∧ segmentArea J l = segmentArea I l ∧
    bbox J l = bbox I l ∧ minval J l = minval I l ∧ maxval J l = maxval I l ∧
    (∀ a b, rawMoment J l a b = rawMoment I l a b) ∧ centroid J l = centroid I l ∧
    secondMoments J l = secondMoments I l := by
  have hf := footprint_congr I J l h
  have hdata : ∀ p ∈ footprint I l, J.data p = I.data p := fun p hp => h.data p (footprint_sub I l p hp)
  have hbox : bbox J l = bbox I l := by unfold bbox; rw [h.pixels, h.nx]
  have hflux : segmentFlux J l = segmentFlux I l := by
    unfold segmentFlux; simp only [hf]; rw [sumOver_congr I.data J.data _ hdata]
  have harea : area J l = area I l := by unfold area; simp only [hf]
  have hext : ∀ better, argExt J l better = argExt I l better := by
    intro better
    unfold argExt
    rw [hf, h.nx]
    have : ∀ (ps : List Nat) (acc : Option (Nat × Nat × Rat)), (∀ p ∈ ps, J.data p = I.data p) →
        ps.foldl (fun acc p => match finVal (J.data p), acc with
          | some v, none => some (p / I.nx, p % I.nx, v)
          | some v, some (y, x, w) => if better v w then some (p / I.nx, p % I.nx, v) else some (y, x, w)
          | none, a => a) acc =
        ps.foldl (fun acc p => match finVal (I.data p), acc with
          | some v, none => some (p / I.nx, p % I.nx, v)
          | some v, some (y, x, w) => if better v w then some (p / I.nx, p % I.nx, v) else some (y, x, w)
          | none, a => a) acc := by
      intro ps
      induction ps with
      | nil => intro acc _; rfl
      | cons p ps ih =>
        intro acc hh
        simp only [List.foldl_cons]
        rw [hh p List.mem_cons_self]
        exact ih _ (fun q hq => hh q (List.mem_cons_of_mem _ hq))
    exact this _ _ hdata
  have hmom : ∀ a b, rawMoment J l a b = rawMoment I l a b := by
    intro a b
    unfold rawMoment
    simp only [hbox, h.pixels, h.nx]
    congr 1
    apply List.map_congr_left
    intro p hp
    have : momVal J l p = momVal I l p := by
      unfold momVal; rw [h.conv p hp, h.seg p hp, h.mask p hp]
    rw [this]
  refine ⟨hflux, harea, by unfold segmentArea; rw [h.pixels], hbox, hext _, hext _, hmom, ?_, ?_⟩
  · unfold centroid; simp only [hmom, hbox]
  · unfold secondMoments; simp only [hmom]

/-- values stored under masked pixels of the segment never matter for flux, area or the extrema -/
theorem flux_blind_to_masked (I : Inputs) (d' : Nat → V) (l : Nat)
    (h : ∀ p ∈ segPix I l, I.mask p = false → d' p = I.data p) :
    footprint { I with data := d' } l = footprint I l ∧
    segmentFlux { I with data := d' } l = segmentFlux I l := by
  have hf : footprint { I with data := d' } l = footprint I l := by
    unfold footprint segPix Inputs.n
    apply List.filter_congr
    intro p hp
    by_cases hm : I.mask p = true
    · simp [hm]
    · have hm' : I.mask p = false := by simpa using hm
      simp only [hm', Bool.not_false, Bool.true_and]
      rw [h p hp hm']
  refine ⟨hf, ?_⟩
  unfold segmentFlux
  simp only [hf]
  have : sumOver d' (footprint I l) = sumOver I.data (footprint I l) := by
    apply sumOver_congr
    intro p hp
    unfold footprint at hp
    have := List.mem_filter.mp hp
    have hm : I.mask p = false := by
      have := this.2; simp only [Bool.and_eq_true, Bool.not_eq_true'] at this; exact this.1
    exact h p this.1 hm
  rw [this]

/-- a completely masked (or completely non-finite) source yields NaN, never a number -/
theorem all_masked_nan (I : Inputs) (l : Nat) (h : ∀ p ∈ segPix I l, I.mask p = true ∨ (I.data p).isFinite = false) :
    segmentFlux I l = none ∧ area I l = none ∧ minval I l = none ∧ maxval I l = none := by
  have hf : footprint I l = [] := by
    unfold footprint
    rw [List.filter_eq_nil_iff]
    intro p hp
    rcases h p hp with hm | hd
    · simp [hm]
    · simp [hd]
  unfold segmentFlux area minval maxval argExt
  simp [hf]

/-- renumbering labels with an injective map leaves every row unchanged (it only renames it) -/
theorem pix_relabel_inj (n : Nat) (seg : Nat → Nat) (f : Nat → Nat) (hf : Function.Injective f) (l : Nat) :
    pix n (fun p => f (seg p)) (f l) = pix n seg l := by
  unfold pix
  apply List.filter_congr
  intro p _
  by_cases h : seg p = l
  · simp [h]
  · have : f (seg p) ≠ f l := fun e => h (hf e)
    simp [h, this]

theorem row_relabel_invariant (I : Inputs) (f : Nat → Nat) (hf : Function.Injective f) (l : Nat) :
    let J : Inputs := { I with seg := fun p => f (I.seg p) }
    segmentFlux J (f l) = segmentFlux I l ∧ area J (f l) = area I l ∧ segmentArea J (f l) = segmentArea I l ∧
    bbox J (f l) = bbox I l ∧ centroid J (f l) = centroid I l ∧ minval J (f l) = minval I l := by
  intro J
  have hp : segPix J (f l) = segPix I l := pix_relabel_inj I.n I.seg f hf l
  have hfoot : footprint J (f l) = footprint I l := by unfold footprint; rw [hp]
  have hbox : bbox J (f l) = bbox I l := by unfold bbox; rw [hp]
  have hmom : ∀ a b, rawMoment J (f l) a b = rawMoment I l a b := by
    intro a b
    unfold rawMoment
    simp only [hbox, hp]
    congr 1
    apply List.map_congr_left
    intro p _
    have : momVal J (f l) p = momVal I l p := by
      unfold momVal
      have e : (f (I.seg p) = f l) = (I.seg p = l) := by
        apply propext; exact ⟨fun h => hf h, fun h => by rw [h]⟩
      show (match finVal (I.conv p) with
        | some v => if f (I.seg p) = f l ∧ I.mask p = false ∧ 0 ≤ v then v else 0
        | none => 0) = _
      simp only [e]
      rfl
    rw [this]
  refine ⟨by unfold segmentFlux; simp only [hfoot]; rfl, by unfold area; simp only [hfoot],
    by unfold segmentArea; rw [hp], hbox, by unfold centroid; simp only [hmom, hbox], ?_⟩
  unfold minval argExt; rw [hfoot]

/-- the catalogue is a map over its labels: reordering the labels only reorders the rows -/
theorem rows_perm {α : Type} (row : Nat → α) (l1 l2 : List Nat) (h : l1.Perm l2) :
    (l1.map row).Perm (l2.map row) := h.map row

-- non-vacuity: 2×3 image, label 2 on three pixels one of which is masked and one NaN-free
example : segmentFlux ⟨2, 3, fun p => [2, 2, 0, 0, 2, 1].getD p 0,
    fun p => [V.fin 1, V.fin 5, V.fin 9, V.nan, V.fin 7, V.fin 3].getD p V.nan,
    fun p => [V.fin 1, V.fin 5, V.fin 9, V.nan, V.fin 7, V.fin 3].getD p V.nan,
    fun p => p == 1, none, none⟩ 2 = some 8 := by decide +kernel

end PhotVerif.C07
