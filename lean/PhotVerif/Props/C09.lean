/-
  C09 — results never depend on access order or on earlier calls.
  (a) Background2D: for the resource-lifetime table regenerated from background_2d.py, every history
      of reads of the lazily evaluated meshes succeeds, in each filter configuration.
  (b) Profile normalisation: for the rescale table regenerated from profiles/*.py, every cached array
      stays `raw / normalization_value` along every history; unnormalize restores the raw arrays.
  (c) Call-independence: for the attribute sets regenerated from psf/photometry.py, no call writes a
      configuration attribute, so configuration after any sequence of calls is the constructor's.
-/
import PhotVerif.Proofs.LazyTheory
import PhotVerif.Gen.Bkg2DTable
import PhotVerif.Model.ProfileNorm
import PhotVerif.Model.CallObj
import PhotVerif.Gen.SharedState
import Mathlib.Algebra.Order.Field.Rat
import Mathlib.Tactic.FieldSimp
import Mathlib.Tactic.Ring
import Mathlib.Tactic.Linarith

namespace PhotVerif.C09
open PhotVerif.Model.Lazy PhotVerif.LazyTheory PhotVerif.Gen.Bkg2DTable

/-! ### (a) Background2D -/

/-- instantiate the extracted event list for a configuration:
    `selective` = the selective-filter path is taken (filter_threshold ≥ min mesh value, filter_size ≠ (1,1));
    `thrNone` = filter_threshold is None -/
def inst (selective thrNone : Bool) (steps : List Step) : List Micro :=
  steps.filterMap fun s =>
    if s.onlySelective && !selective then none
    else some (if s.isDrop then Micro.drop s.res (if s.orThrNone && thrNone then [] else s.guardKeys)
               else Micro.use s.res)

def bkgRows (selective thrNone : Bool) : List (List Micro) :=
  [inst selective thrNone bkgMeshSteps, inst selective thrNone rmsMeshSteps]

/-- filter_threshold is None: any order of reading background_mesh / background_rms_mesh succeeds -/
theorem bkg2d_order_free_thrNone (hist : List Nat) :
    runHistory (tblOf (bkgRows false true)) hist fresh 0 = none :=
  checked_table_never_fails _ (by decide) (by decide) hist

/-- filter_threshold below the minimum mesh value (plain median filter): any order succeeds -/
theorem bkg2d_order_free_thrBelow (hist : List Nat) :
    runHistory (tblOf (bkgRows false false)) hist fresh 0 = none :=
  checked_table_never_fails _ (by decide) (by decide) hist

/-- filter_threshold at or above the minimum (selective filter, which needs `_bkg_stats` for both meshes):
    any order succeeds -/
theorem bkg2d_order_free_selective (hist : List Nat) :
    runHistory (tblOf (bkgRows true false)) hist fresh 0 = none :=
  checked_table_never_fails _ (by decide) (by decide) hist

-- the defect this replaced (kept as a regression witness): dropping `_bkg_stats` *before* the selective
-- filter uses it makes "rms mesh, then background mesh" fail at the second read
example : runHistory (tblOf [[Micro.use 0, Micro.drop 0 [1], Micro.use 0], [Micro.use 1, Micro.drop 1 [], Micro.use 0]])
    [1, 0] fresh 0 = some 1 := by decide

/-! ### (b) profile normalisation -/
section profile
open PhotVerif.Model PhotVerif.Model.ProfileNorm PhotVerif.Gen.ProfileTable

/-- a cached array is `raw / normalization_value`; an array that would be created un-normalised is
    still uncached only while the normalisation is 1 -/
def KeyOK (norm : Rat) (old : Option Rat) (row : Row) : Prop :=
  match old with
  | some v => v * norm = 1
  | none => row.firstReadAppliesNorm = false → norm = 1

theorem readKey_ok (row : Row) (norm : Rat) (hn : norm ≠ 0) (old : Option Rat) (h : KeyOK norm old row) :
    KeyOK norm (ProfileNorm.readKey row norm old) row := by
  unfold ProfileNorm.readKey
  cases old with
  | some v => exact h
  | none =>
    unfold KeyOK firstScale at *
    simp only at h ⊢
    by_cases ha : row.firstReadAppliesNorm = true
    · rw [if_pos ha]; field_simp
    · have : row.firstReadAppliesNorm = false := by simpa using ha
      rw [if_neg ha, h this]; norm_num

theorem normalize_key_ok (row : Row) (hw : rowWf row = true) (norm n : Rat) (hn : n ≠ 0) (hnorm : norm ≠ 0)
    (old : Option Rat) (h : KeyOK norm old row) :
    KeyOK (norm * n) (rescaleKey (norm * n) (1 / n) row.inNormalize row.uncondNormalize old row) row := by
  unfold rowWf at hw
  simp only [Bool.and_eq_true] at hw
  obtain ⟨⟨hin, _⟩, hrest⟩ := hw
  unfold rescaleKey
  simp only [hin, Bool.not_true, Bool.false_eq_true, if_false]
  cases old with
  | some v =>
    unfold KeyOK at *
    simp only at h ⊢
    field_simp
    linarith [h]
  | none =>
    unfold KeyOK at h
    simp only at h
    by_cases ha : row.firstReadAppliesNorm = true
    · rw [if_pos ha] at hrest
      simp only [Bool.and_eq_true, Bool.not_eq_true'] at hrest
      simp only [hrest.1, Bool.false_eq_true, if_false]
      unfold KeyOK; simp only; intro h'; rw [ha] at h'; cases h'
    · have haf : row.firstReadAppliesNorm = false := by simpa using ha
      rw [if_neg ha] at hrest
      simp only [hrest, if_true]
      unfold KeyOK firstScale
      simp only [haf, Bool.false_eq_true, if_false]
      rw [h haf]; field_simp

theorem unnormalize_key_ok (row : Row) (hw : rowWf row = true) (norm : Rat) (hnorm : norm ≠ 0)
    (old : Option Rat) (h : KeyOK norm old row) :
    KeyOK 1 (rescaleKey norm norm row.inUnnormalize row.uncondUnnormalize old row) row := by
  unfold rowWf at hw
  simp only [Bool.and_eq_true] at hw
  obtain ⟨⟨_, hin⟩, hrest⟩ := hw
  unfold rescaleKey
  simp only [hin, Bool.not_true, Bool.false_eq_true, if_false]
  cases old with
  | some v =>
    unfold KeyOK at *
    simp only at h ⊢
    linarith [h]
  | none =>
    unfold KeyOK at h
    simp only at h
    by_cases hu : row.uncondUnnormalize = true
    · simp only [hu, if_true]
      by_cases ha : row.firstReadAppliesNorm = true
      · rw [if_pos ha] at hrest
        simp only [Bool.and_eq_true, Bool.not_eq_true'] at hrest
        rw [hrest.2] at hu; cases hu
      · have haf : row.firstReadAppliesNorm = false := by simpa using ha
        unfold KeyOK firstScale
        simp only [haf, Bool.false_eq_true, if_false]
        rw [h haf]; norm_num
    · simp only [hu, Bool.false_eq_true, if_false]
      unfold KeyOK; simp

/-- invariant of the whole state -/
structure PInv (tbl : List Row) (s : PState) : Prop where
  nz : s.norm ≠ 0
  len : s.sc.length = tbl.length
  keys : ∀ k (h1 : k < s.sc.length) (h2 : k < tbl.length), KeyOK s.norm s.sc[k] tbl[k]

theorem init_pinv (tbl : List Row) : PInv tbl (init tbl) := by
  refine ⟨by simp [init], by simp [init], ?_⟩
  intro k h1 h2
  simp only [init, List.getElem_replicate]
  intro _; rfl

theorem read_pinv (tbl : List Row) (s : PState) (h : PInv tbl s) (k : Nat) : PInv tbl (ProfileNorm.read tbl s k) := by
  unfold ProfileNorm.read
  cases hk : tbl[k]? with
  | none => exact h
  | some row =>
    simp only
    refine ⟨h.nz, by simp [h.len], ?_⟩
    intro j h1 h2
    have h1' : j < s.sc.length := by simpa using h1
    by_cases hjk : j = k
    · subst hjk
      simp only [List.getElem_set_self]
      have hrow : tbl[j] = row := by
        rw [List.getElem?_eq_getElem h2] at hk; exact Option.some.inj hk
      rw [hrow]
      have hold : s.sc.getD j none = s.sc[j] := by
        rw [List.getD_eq_getElem?_getD, List.getElem?_eq_getElem h1']; rfl
      rw [hold]
      have := h.keys j h1' h2
      rw [hrow] at this
      exact readKey_ok row s.norm h.nz _ this
    · simp only [List.getElem_set_ne (Ne.symm hjk)]
      exact h.keys j h1' h2

theorem normalize_pinv (tbl : List Row) (hw : tbl.all rowWf = true) (s : PState) (h : PInv tbl s) (m : Rat) :
    PInv tbl (normalize tbl s m) := by
  unfold normalize
  have h1 := read_pinv tbl s h 0
  simp only
  split
  · exact h1
  · rename_i hn
    refine ⟨mul_ne_zero h1.nz hn, by simp [h1.len], ?_⟩
    intro k hk1 hk2
    simp only [List.getElem_zipWith]
    have hk1' : k < (ProfileNorm.read tbl s 0).sc.length := by simp [h1.len]; exact hk2
    exact normalize_key_ok tbl[k] (List.all_eq_true.mp hw _ (List.getElem_mem hk2)) _ _ hn h1.nz _
      (h1.keys k hk1' hk2)

theorem unnormalize_pinv (tbl : List Row) (hw : tbl.all rowWf = true) (s : PState) (h : PInv tbl s) :
    PInv tbl (unnormalize tbl s) := by
  unfold unnormalize
  refine ⟨by norm_num, by simp [h.len], ?_⟩
  intro k hk1 hk2
  simp only [List.getElem_zipWith]
  have hk1' : k < s.sc.length := by rw [h.len]; exact hk2
  exact unnormalize_key_ok tbl[k] (List.all_eq_true.mp hw _ (List.getElem_mem hk2)) _ h.nz _ (h.keys k hk1' hk2)

theorem step_pinv (tbl : List Row) (hw : tbl.all rowWf = true) (s : PState) (h : PInv tbl s) (o : Op) :
    PInv tbl (step tbl s o) := by
  cases o with
  | read k => exact read_pinv tbl s h k
  | normalize m => exact normalize_pinv tbl hw s h m
  | unnormalize => exact unnormalize_pinv tbl hw s h

/-- MAIN (b): for the table extracted from the source, along EVERY history of normalize(max|sum),
    unnormalize and first reads of profile / profile_error / data_profile, each cached array is
    `raw / normalization_value` (exact arithmetic) … -/
theorem profile_history_inv (ops : List Op) : PInv rows (run rows ops) := by
  unfold run
  have hw : rows.all rowWf = true := by decide
  have : ∀ s, PInv rows s → PInv rows (ops.foldl (step rows) s) := by
    induction ops with
    | nil => intro s h; exact h
    | cons o ops ih => intro s h; exact ih _ (step_pinv rows hw s h o)
  exact this _ (init_pinv rows)

/-- … hence after `unnormalize` every cached array is exactly the raw array again, whenever it was first read -/
theorem unnormalize_restores (ops : List Op) (k : Nat) (v : Rat)
    (h : (run rows (ops ++ [Op.unnormalize])).sc[k]? = some (some v)) : v = 1 := by
  have hinv := profile_history_inv (ops ++ [Op.unnormalize])
  have hnorm : (run rows (ops ++ [Op.unnormalize])).norm = 1 := by
    unfold run; rw [List.foldl_append]; rfl
  obtain ⟨hk, hv⟩ := List.getElem?_eq_some_iff.mp h
  have hk2 : k < rows.length := by rw [← hinv.len]; exact hk
  have := hinv.keys k hk hk2
  rw [hv, hnorm] at this
  unfold KeyOK at this
  simpa using this

end profile

/-! ### (c) call independence -/
section calls
open PhotVerif.Model.CallObj PhotVerif.Gen.ConfigWrites

/-- if no attribute outside the reset set is written by a call, a configuration attribute keeps the
    constructor's value through any sequence of calls -/
theorem config_kept (row : ClassRow) (hw : wf row = true) (a : String) (ha : isConfig row a = true) :
    ∀ (wss : List (List String)) (st : Store) (i : Nat), calls row st wss i a = st a := by
  intro wss
  induction wss with
  | nil => intro st i; rfl
  | cons ws rest ih =>
    intro st i
    simp only [calls]
    rw [ih]
    unfold call
    unfold wf at hw
    unfold isConfig at ha
    simp only [Bool.and_eq_true, Bool.not_eq_true'] at hw ha
    have hnr : row.resetAttrs.contains a = false := ha.2
    by_cases hwr : row.writtenElsewhere.contains a = true
    · have := List.all_eq_true.mp hw.2 a (List.contains_iff_mem.mp hwr)
      rw [hnr] at this; cases this
    · have h1 : a ∉ row.writtenElsewhere := fun hm => hwr (List.contains_iff_mem.mpr hm)
      have h2 : a ∉ row.resetAttrs := fun hm => by
        have := List.contains_iff_mem.mpr hm; rw [hnr] at this; cases this
      simp [h1, h2]

/-- PSFPhotometry: every configuration attribute (grouper, finder, fitter, fit_shape, psf_model, …) survives
    any sequence of calls -/
theorem psfphot_call_independent (a : String) (ha : isConfig rowPSFPhotometry a = true)
    (wss : List (List String)) (st : Store) : calls rowPSFPhotometry st wss 1 a = st a :=
  config_kept rowPSFPhotometry (by decide) a ha wss st 1

theorem iterative_psfphot_call_independent (a : String) (ha : isConfig rowIterativePSFPhotometry a = true)
    (wss : List (List String)) (st : Store) : calls rowIterativePSFPhotometry st wss 1 a = st a :=
  config_kept rowIterativePSFPhotometry (by decide) a ha wss st 1

-- non-vacuity: `grouper` is a configuration attribute of PSFPhotometry
example : isConfig rowPSFPhotometry "grouper" = true := by decide

end calls

/-- TABLE OBLIGATION: see `Gen/SharedState.lean` - no class attribute bound to a mutable literal in a class body is mutated in place
    by a method, and no module-level mutable literal is mutated (or rebound through `global`) by a function: nothing an object reports
    can then depend, through such state, on what OTHER objects of the library did before (seed C09-r8 cached the names of the lazy
    properties of whichever aperture class was touched first in a list shared by all aperture classes). -/
theorem no_shared_mutable_state :
    Gen.SharedState.classLevel = [] ∧ Gen.SharedState.moduleLevel = [] := by decide

end PhotVerif.C09
