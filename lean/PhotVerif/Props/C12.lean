/-
  C12 — PSF photometry keeps its bookkeeping straight.
  (Recovery of rendered scenes depends on the optimiser and is probed, not proved.)
-/
import PhotVerif.Model.PsfBook
import PhotVerif.Gen.PsfTable
import PhotVerif.Props.C04
import Mathlib.Algebra.Order.Field.Rat
import Mathlib.Data.List.Basic
import Mathlib.Data.List.Perm.Basic
import Mathlib.Tactic.Linarith
import Mathlib.Tactic.Ring
import PhotVerif.Gen.ForwardTable

namespace PhotVerif.C12
open PhotVerif.Model PhotVerif.Model.CCL PhotVerif.Model.PsfBook PhotVerif.CCLTheory PhotVerif.C04

/-! ### groups are the single-linkage clusters, numbered by first appearance -/

theorem mem_ptNbrs (xs ys : List Rat) (sep2 : Rat) (p q : Nat) :
    q ∈ ptNbrs xs ys sep2 p ↔ q < xs.length ∧ q ≠ p ∧
      (xs.getD p 0 - xs.getD q 0) * (xs.getD p 0 - xs.getD q 0)
        + (ys.getD p 0 - ys.getD q 0) * (ys.getD p 0 - ys.getD q 0) ≤ sep2 := by
  unfold ptNbrs
  simp only [List.mem_filter, List.mem_range, Bool.and_eq_true, bne_iff_ne, ne_eq, decide_eq_true_eq]

/-- the sources with the relation "distance ≤ min_separation" form a finite symmetric graph -/
def pointGraph (xs ys : List Rat) (sep2 : Rat) : Graph where
  n := xs.length
  fg := fun _ => true
  nbrs := ptNbrs xs ys sep2
  nbrs_fg := by
    intro p q hq
    exact ⟨rfl, ((mem_ptNbrs xs ys sep2 p q).mp hq).1⟩
  nbrs_symm := by
    intro p q _ hp hq
    obtain ⟨_, hne, hd⟩ := (mem_ptNbrs xs ys sep2 p q).mp hq
    rw [mem_ptNbrs]
    refine ⟨hp, fun e => hne e.symm, ?_⟩
    have e : (xs.getD q 0 - xs.getD p 0) * (xs.getD q 0 - xs.getD p 0)
        + (ys.getD q 0 - ys.getD p 0) * (ys.getD q 0 - ys.getD p 0)
        = (xs.getD p 0 - xs.getD q 0) * (xs.getD p 0 - xs.getD q 0)
        + (ys.getD p 0 - ys.getD q 0) * (ys.getD p 0 - ys.getD q 0) := by ring
    rw [e]; exact hd

/-- MAIN (groups): two sources get the same group id iff they are linked by a chain of sources each within
    min_separation of the next (single linkage) -/
theorem group_ids_are_components (xs ys : List Rat) (sep2 : Rat) (p q : Nat)
    (hp : p < xs.length) (hq : q < xs.length) :
    (groupIds xs ys sep2).getD p 0 = (groupIds xs ys sep2).getD q 0 ↔ Reach (pointGraph xs ys sep2) p q := by
  let G := pointGraph xs ys sep2
  let v := run xs.length (fun _ => true) (ptNbrs xs ys sep2) ((List.range xs.length).sum + 1) (Array.range xs.length)
  have hsound0 : Sound G (F (Array.range xs.length)) := by
    intro a ha _
    have : F (Array.range xs.length) a = a := F_range _ _ ha
    rw [this]; exact ⟨Reach.refl a, Nat.le_refl a⟩
  obtain ⟨_, hs, hf⟩ := run_spec G ((List.range xs.length).sum + 1) (Array.range xs.length) (by simp [G, pointGraph])
    hsound0 (by have := pot_range xs.length; show pot xs.length _ < _; omega)
  have hcomp := fix_same_value_iff_connected G (F v) hf hs p q hp hq rfl rfl
  -- every root has component size ≥ 1, so every value is a kept root
  have hkept : ∀ a, a < xs.length → F v a ∈ kept xs.length (fun _ => true) v 1 := by
    intro a ha
    have ⟨hra, hmin⟩ := fix_value_is_min G (F v) hf hs a ha rfl
    obtain ⟨he, hn, _⟩ := fix_reach_eq G (F v) hf a ha rfl (F v a) hra
    rw [mem_kept]
    refine ⟨⟨hn, rfl, he.symm⟩, ?_⟩
    unfold compSize
    have : a ∈ (List.range xs.length).filter fun b => (fun _ => true) b && F v b == F v a := by
      simp [List.mem_filter, ha]
    have hpos : 0 < ((List.range xs.length).filter fun b => (fun _ => true) b && F v b == F v a).length :=
      List.length_pos_of_mem this
    rw [List.countP_eq_length_filter]
    exact hpos
  unfold groupIds
  simp only
  rw [List.getD_eq_getElem?_getD, List.getD_eq_getElem?_getD, List.getElem?_map, List.getElem?_map,
    List.getElem?_range hp, List.getElem?_range hq]
  simp only [Option.map_some, Option.getD_some]
  rw [label_eq_iff xs.length (fun _ => true) v 1 p q rfl rfl (hkept p hp) (hkept q hq)]
  exact hcomp

/-! ### results come back in input order -/

/-- MAIN (order): values produced in grouped order and put back with `argsort(ids)` are in input order,
    for EVERY grouping permutation (any interleaving of group membership) -/
theorem ungroup_restores_input_order {α : Type} [Inhabited α] (f : Nat → α) (sigma : List Nat)
    (h : sigma.Perm (List.range sigma.length)) :
    orderById sigma (sigma.map f) = (List.range sigma.length).map f := by
  unfold orderById invPerm
  rw [List.map_map]
  apply List.map_congr_left
  intro k hk
  have hmem : k ∈ sigma := h.mem_iff.mpr hk
  simp only [Function.comp]
  have hlt : sigma.idxOf k < sigma.length := List.idxOf_lt_length_iff.mpr hmem
  rw [List.getD_eq_getElem?_getD, List.getElem?_map, List.getElem?_eq_getElem hlt]
  simp [List.getElem_idxOf]

/-- `group_by` only permutes the rows -/
theorem groupOrder_perm (gids : List Nat) : (groupOrder gids).Perm (List.range gids.length) := by
  unfold groupOrder; exact List.mergeSort_perm _ _

theorem groupOrder_length (gids : List Nat) : (groupOrder gids).length = gids.length := by
  unfold groupOrder; simp

/-- corollary: with the grouping order the table really uses, un-grouping restores the input order -/
theorem fit_results_in_input_order {α : Type} [Inhabited α] (f : Nat → α) (gids : List Nat) :
    orderById (groupOrder gids) ((groupOrder gids).map f) = (List.range gids.length).map f := by
  have h := ungroup_restores_input_order f (groupOrder gids) (by rw [groupOrder_length]; exact groupOrder_perm gids)
  rw [groupOrder_length] at h
  exact h

/-! ### group sizes, flags -/

theorem groupSizes_spec (gids : List Nat) (i : Nat) (hi : i < gids.length) :
    (groupSizes gids)[i]'(by unfold groupSizes; simpa using hi) = gids.count gids[i] := by
  unfold groupSizes; simp

/-- decision logic of the documented flag bits, stated outright -/
theorem flags_bits (ny nx fy fx npix : Nat) (xfit yfit flux : Rat) :
    let fl := flags ny nx fy fx npix xfit yfit flux false false false
    (fl % 2 = 1 ↔ npix < fy * fx) ∧
    ((fl / 2) % 2 = 1 ↔ (xfit < 0 ∨ yfit < 0 ∨ xfit > nx ∨ yfit > ny)) ∧
    ((fl / 4) % 2 = 1 ↔ flux ≤ 0) := by
  unfold flags
  simp only [Bool.false_eq_true, if_false, Nat.add_zero]
  by_cases h1 : npix < fy * fx <;> by_cases h2 : (xfit < 0 ∨ yfit < 0 ∨ xfit > nx ∨ yfit > ny) <;>
    by_cases h3 : flux ≤ 0 <;> simp [h1, h2, h3]

-- non-vacuity: three sources on a line at x = 0, 2, 5 with min_separation 2: groups {0,1}, {2}
example : groupIds [0, 2, 5] [0, 0, 0] 4 = [1, 1, 2] := by decide +kernel
-- interleaved membership: sources 0 and 2 are close, 1 is far: ids [1, 2, 1]
example : groupIds [0, 9, 1] [0, 0, 0] 4 = [1, 2, 1] := by decide +kernel

/-! ### per-source results leave the group-fitting order (table regenerated from photometry.py on every run) -/

/-- TABLE OBLIGATION: every per-source list that `__call__` reads from `_group_results` (npixfit, nmodels) and the PSF-centre
    indices used by the fit metrics go through `_ungroup`, and `_ungroup` is `_order_by_id ∘ _flatten` indexing with the
    ungroup indices - so `ungroup_restores_input_order` / `fit_results_in_input_order` apply to them (seed C12-r5 used
    `_flatten` alone for npixfit) -/
theorem per_source_results_are_ungrouped :
    (Gen.PsfTable.groupResultReads.filter fun r => r.1 == "__call__").all (fun r => r.2.2) = true ∧
    ("__call__", "npixfit", true) ∈ Gen.PsfTable.groupResultReads ∧
    ("__call__", "nmodels", true) ∈ Gen.PsfTable.groupResultReads ∧
    ("_calc_fit_metrics", "psfcenter_indices", true) ∈ Gen.PsfTable.groupResultReads ∧
    Gen.PsfTable.ungroupFlattensThenOrders = true ∧ Gen.PsfTable.orderByIdIndexesWithUngroupIndices = true := by
  decide

/-- TABLE OBLIGATION (regenerated from `PSFPhotometry._prepare_init_params`): the grouper is called, and the `group_id` column assigned,
    only under the test that the table carries no `group_id` column - a supplied grouping wins over a configured grouper (seed C12-r10
    flattened the test) -/
theorem supplied_group_id_wins : Gen.PsfTable.suppliedGroupIdWins = true := by decide

/-! ### no delegating call in this property's modules drops an argument it holds (table regenerated from the source) -/

/-- TABLE OBLIGATION: in the modules of this property, every call that delegates to another photutils function, method or
    constructor passes on each value the caller holds under the callee's own parameter name (its own parameters, `self.<name>`
    attributes set in `__init__`) - dropped `subpixels`, `mask`, `connectivity`, `include_localbkg` ... keywords were a recurring
    kind of seeded change -/
theorem no_dropped_arguments : Gen.ForwardTable.droppedIn Gen.ForwardTable.scopeC12 = [] := by decide

end PhotVerif.C12
