/-
  C11 — Background2D mesh values: tiling, mask-blindness, exact reproduction of a constant image,
  and shift / scale equivariance of the box statistics (incl. the sigma-clip decisions).
-/
import PhotVerif.Model.Bkg
import Mathlib.Algebra.Order.Field.Rat
import Mathlib.Algebra.BigOperators.Group.List.Basic
import Mathlib.Algebra.BigOperators.Ring.List
import Mathlib.Data.List.Basic
import Mathlib.Tactic.FieldSimp
import Mathlib.Tactic.Ring
import Mathlib.Tactic.Linarith
import Mathlib.Tactic.Positivity
import Mathlib.Tactic.NormNum
import Mathlib.Tactic.LinearCombination

namespace PhotVerif.C11
open PhotVerif.Model PhotVerif.Model.Bkg

/-! ### tiling -/

/-- every pixel of the image lies in exactly one mesh box: box (y / by, x / bx) -/
theorem tiling_partition (c : Cfg) (p i j : Nat) :
    p ∈ boxPixels c i j ↔ p < c.ny * c.nx ∧ (p / c.nx) / c.boxY = i ∧ (p % c.nx) / c.boxX = j := by
  unfold boxPixels
  simp only [List.mem_filter, List.mem_range, Bool.and_eq_true, beq_iff_eq]

theorem box_in_range (c : Cfg) (hby : 0 < c.boxY) (hbx : 0 < c.boxX) (p : Nat) (hp : p < c.ny * c.nx) :
    (p / c.nx) / c.boxY < nboxY c ∧ (p % c.nx) / c.boxX < nboxX c := by
  have hnx : 0 < c.nx := by
    rcases Nat.eq_zero_or_pos c.nx with h | h
    · rw [h] at hp; simp at hp
    · exact h
  have hy : p / c.nx < c.ny := Nat.div_lt_of_lt_mul (by rw [Nat.mul_comm]; exact hp)
  have hx : p % c.nx < c.nx := Nat.mod_lt _ hnx
  unfold nboxY nboxX
  constructor
  · apply Nat.div_lt_of_lt_mul
    have := Nat.div_add_mod (c.ny + c.boxY - 1) c.boxY
    have h2 := Nat.mod_lt (c.ny + c.boxY - 1) hby
    generalize c.boxY * ((c.ny + c.boxY - 1) / c.boxY) = m at *
    omega
  · apply Nat.div_lt_of_lt_mul
    have := Nat.div_add_mod (c.nx + c.boxX - 1) c.boxX
    have h2 := Nat.mod_lt (c.nx + c.boxX - 1) hbx
    generalize c.boxX * ((c.nx + c.boxX - 1) / c.boxX) = m at *
    omega

/-! ### mask blindness -/

/-- the mesh value of a box does not depend on values stored under masked pixels (nor on non-finite ones) -/
theorem mesh_mask_blind (c : Cfg) (e : Estimator) (d d' : Nat → V) (mask : Nat → Bool) (i j : Nat)
    (h : ∀ p, mask p = false → d' p = d p) : meshBox c e d' mask i j = meshBox c e d mask i j := by
  have : goodVals d' mask (boxPixels c i j) = goodVals d mask (boxPixels c i j) := by
    unfold goodVals
    apply List.filterMap_congr
    intro p _
    by_cases hm : mask p = true
    · simp [hm]
    · have hm' : mask p = false := by simpa using hm
      simp [hm', h p hm']
  unfold meshBox
  rw [this]

/-! ### sums, mean, variance under shift and scale -/

theorem sumQ_eq (l : List Rat) : sumQ l = l.sum := by unfold sumQ; rw [List.sum_eq_foldl]

theorem sum_map_add (l : List Rat) (a : Rat) : (l.map (· + a)).sum = l.sum + l.length * a := by
  induction l with
  | nil => simp
  | cons x l ih => simp only [List.map_cons, List.sum_cons, List.length_cons, ih]; push_cast; ring

theorem mean_shift (l : List Rat) (a : Rat) (h : l ≠ []) : mean (l.map (· + a)) = mean l + a := by
  unfold mean
  rw [sumQ_eq, sumQ_eq, sum_map_add, List.length_map]
  have : (l.length : Rat) ≠ 0 := by
    have := List.length_pos_of_ne_nil h; positivity
  field_simp

theorem mean_scale (l : List Rat) (k : Rat) : mean (l.map (k * ·)) = k * mean l := by
  unfold mean
  rw [sumQ_eq, sumQ_eq, List.sum_map_mul_left, List.length_map]
  simp only [List.map_id']
  ring

theorem variance_shift (l : List Rat) (a : Rat) (h : l ≠ []) : variance (l.map (· + a)) = variance l := by
  unfold variance
  rw [mean_shift l a h, List.map_map, List.length_map]
  congr 2
  apply List.map_congr_left
  intro x _
  simp only [Function.comp]; ring

theorem variance_scale (l : List Rat) (k : Rat) : variance (l.map (k * ·)) = k * k * variance l := by
  unfold variance
  rw [mean_scale, List.map_map, List.length_map, sumQ_eq, sumQ_eq]
  have : (l.map ((fun x => (x - k * mean l) * (x - k * mean l)) ∘ fun x => k * x))
      = (l.map fun x => (x - mean l) * (x - mean l)).map (k * k * ·) := by
    rw [List.map_map]
    apply List.map_congr_left
    intro x _; simp only [Function.comp]; ring
  rw [this, List.sum_map_mul_left]
  simp only [List.map_id']
  ring

/-! ### median under strictly increasing affine maps -/

theorem median_map (l : List Rat) (f : Rat → Rat) (hf : ∀ a b, a ≤ b ↔ f a ≤ f b)
    (hadd : ∀ a b, f ((a + b) / 2) = (f a + f b) / 2) (h0 : l ≠ []) :
    median (l.map f) = f (median l) := by
  unfold median
  have hs : (l.map f).mergeSort (fun a b => decide (a ≤ b)) = (l.mergeSort (fun a b => decide (a ≤ b))).map f := by
    symm
    apply List.map_mergeSort
    intro a _ b _
    simp only [decide_eq_decide]
    exact hf a b
  rw [hs]
  simp only [List.length_map]
  have hlen : (l.mergeSort fun a b => decide (a ≤ b)).length = l.length := List.length_mergeSort l
  have hpos : 0 < l.length := List.length_pos_of_ne_nil h0
  have gd : ∀ (s : List Rat) (i : Nat), i < s.length → (s.map f).getD i 0 = f (s.getD i 0) := by
    intro s i hi
    rw [List.getD_eq_getElem?_getD, List.getD_eq_getElem?_getD, List.getElem?_map, List.getElem?_eq_getElem hi]
    simp
  split
  · rw [gd _ _ (by rw [hlen]; omega)]
  · rw [gd _ _ (by rw [hlen]; omega), gd _ _ (by rw [hlen]; omega), hadd]

theorem median_shift (l : List Rat) (a : Rat) (h : l ≠ []) : median (l.map (· + a)) = median l + a :=
  median_map l (· + a) (fun x y => by constructor <;> intro hh <;> linarith) (fun x y => by ring) h

theorem median_scale (l : List Rat) (k : Rat) (hk : 0 < k) (h : l ≠ []) : median (l.map (k * ·)) = k * median l :=
  median_map l (k * ·) (fun x y => by
    constructor
    · intro hh; exact mul_le_mul_of_nonneg_left hh (le_of_lt hk)
    · intro hh; exact le_of_mul_le_mul_left hh hk) (fun x y => by ring) h

/-! ### sigma clipping decides identically on shifted / rescaled data -/

/-- generic transport of the clipping through a map `f` on values with companion `g` on (median, variance) -/
theorem sigBounds_map (s : Rat) (f : Rat → Rat) (g : Rat × Rat → Rat × Rat)
    (h1 : ∀ l : List Rat, l ≠ [] → (median (l.map f), variance (l.map f)) = g (median l, variance l))
    (h2 : ∀ b x, inB s (g b) (f x) = inB s b x) :
    ∀ (n : Nat) (l : List Rat), sigBounds s n (l.map f) = (sigBounds s n l).map g := by
  intro n
  induction n with
  | zero => intro l; rfl
  | succ n ih =>
    intro l
    by_cases h : l = []
    · subst h; simp [sigBounds]
    · have hne : l.isEmpty = false := by simpa using h
      have hf : (l.map f).filter (inB s (g (median l, variance l))) = (l.filter (inB s (median l, variance l))).map f := by
        rw [List.filter_map]
        congr 1
        apply List.filter_congr
        intro x _
        exact h2 _ x
      simp only [sigBounds, List.isEmpty_map, hne, h1 l h, hf, List.length_map]
      simp only [Bool.false_eq_true, if_false]
      split
      · rfl
      · split
        · rfl
        · exact ih _

theorem sigclip_map (s : Rat) (f : Rat → Rat) (g : Rat × Rat → Rat × Rat)
    (h1 : ∀ l : List Rat, l ≠ [] → (median (l.map f), variance (l.map f)) = g (median l, variance l))
    (h2 : ∀ b x, inB s (g b) (f x) = inB s b x) (n : Nat) (l : List Rat) :
    sigclip s n (l.map f) = (sigclip s n l).map f := by
  unfold sigclip
  rw [sigBounds_map s f g h1 h2 n l]
  cases sigBounds s n l with
  | none => rfl
  | some b =>
    simp only [Option.map_some]
    rw [List.filter_map]
    congr 1
    apply List.filter_congr
    intro x _
    exact h2 b x

theorem inB_shift (s a : Rat) (b : Rat × Rat) (x : Rat) : inB s (b.1 + a, b.2) (x + a) = inB s b x := by
  unfold inB
  have : x + a - (b.1 + a) = x - b.1 := by ring
  simp only [this]

theorem inB_scale (s k : Rat) (hk : 0 < k) (b : Rat × Rat) (x : Rat) :
    inB s (k * b.1, k * k * b.2) (k * x) = inB s b x := by
  unfold inB
  simp only [decide_eq_decide]
  have e1 : (k * x - k * b.1) * (k * x - k * b.1) = k * k * ((x - b.1) * (x - b.1)) := by ring
  have e2 : s * s * (k * k * b.2) = k * k * (s * s * b.2) := by ring
  rw [e1, e2]
  have hkk : 0 < k * k := mul_pos hk hk
  constructor
  · intro hh; exact le_of_mul_le_mul_left hh hkk
  · intro hh; exact mul_le_mul_of_nonneg_left hh (le_of_lt hkk)

/-- MAIN (equivariance): adding a constant to the data adds it to the background estimate of every box and
    leaves the variance unchanged; multiplying by k > 0 scales the estimate by k and the variance by k² —
    including the sigma-clip decisions, for the mean, median and SExtractor estimators -/
theorem clipped_shift (c : Cfg) (l : List Rat) (a : Rat) : clipped c (l.map (· + a)) = (clipped c l).map (· + a) := by
  unfold clipped
  cases c.sigma with
  | none => rfl
  | some s =>
    exact sigclip_map s (· + a) (fun b => (b.1 + a, b.2))
      (fun l h => by rw [median_shift l a h, variance_shift l a h]) (fun b x => inB_shift s a b x) _ l

theorem clipped_scale (c : Cfg) (l : List Rat) (k : Rat) (hk : 0 < k) :
    clipped c (l.map (k * ·)) = (clipped c l).map (k * ·) := by
  unfold clipped
  cases c.sigma with
  | none => rfl
  | some s =>
    exact sigclip_map s (k * ·) (fun b => (k * b.1, k * k * b.2))
      (fun l h => by rw [median_scale l k hk h, variance_scale l k]) (fun b x => inB_scale s k hk b x) _ l

theorem estimate_shift (e : Estimator) (l : List Rat) (a : Rat) (h : l ≠ []) :
    estimate e (l.map (· + a)) = estimate e l + a := by
  cases e with
  | mean => exact mean_shift l a h
  | median => exact median_shift l a h
  | sextractor =>
    unfold estimate sextractor
    simp only [mean_shift l a h, median_shift l a h, variance_shift l a h]
    have e1 : mean l + a - (median l + a) = mean l - median l := by ring
    rw [e1]
    split
    · rfl
    · split
      · rfl
      · have : Gen.BkgConsts.sexMedianFactor - Gen.BkgConsts.sexMeanFactor = 1 := by
          unfold Gen.BkgConsts.sexMedianFactor Gen.BkgConsts.sexMeanFactor; norm_num
        linear_combination a * this

theorem estimate_scale (e : Estimator) (l : List Rat) (k : Rat) (hk : 0 < k) (h : l ≠ []) :
    estimate e (l.map (k * ·)) = k * estimate e l := by
  cases e with
  | mean => exact mean_scale l k
  | median => exact median_scale l k hk h
  | sextractor =>
    unfold estimate sextractor
    simp only [mean_scale l k, median_scale l k hk h, variance_scale l k]
    have hkk : 0 < k * k := mul_pos hk hk
    have e1 : (k * mean l - k * median l) * (k * mean l - k * median l)
        = k * k * ((mean l - median l) * (mean l - median l)) := by ring
    have e2 : Gen.BkgConsts.sexRatio * Gen.BkgConsts.sexRatio * (k * k * variance l) = k * k * (Gen.BkgConsts.sexRatio * Gen.BkgConsts.sexRatio * variance l) := by ring
    rw [e1, e2]
    by_cases hv : variance l = 0
    · simp [hv]
    · have hv' : k * k * variance l ≠ 0 := mul_ne_zero (ne_of_gt hkk) hv
      rw [if_neg hv', if_neg hv]
      by_cases hm : (mean l - median l) * (mean l - median l) ≥ Gen.BkgConsts.sexRatio * Gen.BkgConsts.sexRatio * variance l
      · have : k * k * ((mean l - median l) * (mean l - median l)) ≥ k * k * (Gen.BkgConsts.sexRatio * Gen.BkgConsts.sexRatio * variance l) :=
          mul_le_mul_of_nonneg_left hm (le_of_lt hkk)
        rw [if_pos this, if_pos hm]
      · have : ¬ k * k * ((mean l - median l) * (mean l - median l)) ≥ k * k * (Gen.BkgConsts.sexRatio * Gen.BkgConsts.sexRatio * variance l) := by
          intro hh; exact hm (le_of_mul_le_mul_left hh hkk)
        rw [if_neg this, if_neg hm]; ring

/-- the constants and comparison operators the model shares with the source (regenerated every run):
    shift equivariance of the SExtractor estimate needs medianFactor − meanFactor = 1 -/
theorem generated_consts :
    Gen.BkgConsts.sexMedianFactor - Gen.BkgConsts.sexMeanFactor = 1 ∧ 0 < Gen.BkgConsts.sexRatio ∧
    Gen.BkgConsts.sexRatioOp = "GtE" ∧ Gen.BkgConsts.sexZeroStdGivesMean = true ∧
    Gen.BkgConsts.sexMeanOverrideFirst = true ∧ Gen.BkgConsts.sexMedianOverrideGuarded = true ∧
    Gen.BkgConsts.thresholdIsFractionOfFullBox = true ∧ Gen.BkgConsts.exclusionRule = "lt-or-zero" ∧
    Gen.BkgConsts.exclusionComparesNgood = true ∧ Gen.BkgConsts.zoomClipsToMeshRange = true ∧
    Gen.BkgConsts.coverageGetsFill = true ∧ Gen.BkgConsts.thresholdExactWhenInteger = true := by
  refine ⟨?_, ?_, by decide, rfl, rfl, rfl, rfl, by decide, rfl, rfl, rfl, rfl⟩
  · unfold Gen.BkgConsts.sexMedianFactor Gen.BkgConsts.sexMeanFactor; norm_num
  · unfold Gen.BkgConsts.sexRatio; norm_num

/-- defect F41 in binary64 (kernel-evaluated): the former spelling `(1 - p/100) * npix` overshoots the integer threshold 3 for
    p = 70, npix = 10, so a box with exactly 70 % masked pixels (3 good ones) was excluded; `(100 - p) * npix / 100` is exact -/
example : ((1 - (70.0 : Float) / 100.0) * 10.0 > 3.0) = true := by decide +kernel
example : (((100.0 : Float) - 70.0) * 10.0 / 100.0 == 3.0) = true := by decide +kernel

/-! ### exclusion rule -/

/-- a box is excluded exactly when it has fewer good pixels than the threshold, or none at all -/
theorem excluded_iff (c : Cfg) (n : Nat) :
    excluded c n = true ↔ ((n : Rat) < (1 - c.excludePct / 100) * (c.boxY * c.boxX : Nat) ∨ n = 0) := by
  unfold excluded
  have : (Gen.BkgConsts.exclusionRule == "le") = false := by decide
  simp [this]

/-- a completely unmasked, unclipped full box is never excluded, for every exclude_percentile in [0, 100]
    (with `ngood <= threshold` this fails at exclude_percentile = 0: defect F29) -/
theorem full_box_included (c : Cfg) (h0 : 0 ≤ c.excludePct) (hb : 0 < c.boxY * c.boxX) :
    excluded c (c.boxY * c.boxX) = false := by
  rw [Bool.eq_false_iff]
  intro h
  rcases (excluded_iff c _).mp h with h | h
  · have hp : (0 : Rat) < ((c.boxY * c.boxX : Nat) : Rat) := by exact_mod_cast hb
    nlinarith
  · omega

/-- a box without any good pixel is always excluded -/
theorem empty_box_excluded (c : Cfg) : excluded c 0 = true := (excluded_iff c 0).mpr (Or.inr rfl)

/-! ### a constant image is reproduced exactly -/

theorem median_replicate (n : Nat) (a : Rat) (hn : 0 < n) : median (List.replicate n a) = a := by
  have hsorted : (List.replicate n a).mergeSort (fun x y => decide (x ≤ y)) = List.replicate n a := by
    apply List.mergeSort_of_pairwise
    rw [List.pairwise_replicate]
    right; simp
  unfold median
  rw [hsorted]
  simp only [List.length_replicate]
  have g : ∀ i, i < n → (List.replicate n a).getD i 0 = a := by
    intro i hi
    rw [List.getD_eq_getElem?_getD, List.getElem?_replicate]; simp [hi]
  split
  · exact g _ (by omega)
  · rw [g _ (by omega), g _ (by omega)]; ring

/-- every box statistic of a constant box is that constant, its variance is 0 and nothing is clipped -/
theorem constant_box_exact (c : Cfg) (e : Estimator) (n : Nat) (a : Rat) (hn : 0 < n) :
    clipped c (List.replicate n a) = List.replicate n a ∧
    estimate e (List.replicate n a) = a ∧ variance (List.replicate n a) = 0 := by
  have hne : (n : Rat) ≠ 0 := by positivity
  have hmean : mean (List.replicate n a) = a := by
    unfold mean
    rw [sumQ_eq, List.sum_replicate, List.length_replicate]
    simp only [nsmul_eq_mul]
    field_simp
  have hvar : variance (List.replicate n a) = 0 := by
    unfold variance
    rw [hmean, List.map_replicate, sumQ_eq, List.sum_replicate]
    simp
  have hmed := median_replicate n a hn
  refine ⟨?_, ?_, hvar⟩
  · unfold clipped
    cases c.sigma with
    | none => rfl
    | some s =>
      simp only [sigclip]
      have hfilt : ∀ b : Rat × Rat, b = (a, 0) → (List.replicate n a).filter (inB s b) = List.replicate n a := by
        intro b hb
        apply List.filter_eq_self.mpr
        intro x hx
        rw [List.eq_of_mem_replicate hx, hb]
        simp [inB]
      cases hm : c.maxiters with
      | zero => rfl
      | succ k =>
        have hne : (List.replicate n a).isEmpty = false := by
          cases n with
          | zero => omega
          | succ m => rfl
        simp only [sigBounds, hne, hmed, hvar, hfilt (a, 0) rfl, Bool.false_eq_true, if_false, if_true]
  · cases e with
    | mean => exact hmean
    | median => exact hmed
    | sextractor => unfold estimate sextractor; simp [hvar, hmean]

/-! ### interpolation stays within the mesh range -/

theorem sum_weighted_bounds (ws : List (Rat × Rat)) (lo hi : Rat)
    (hw : ∀ t ∈ ws, 0 ≤ t.1) (hv : ∀ t ∈ ws, lo ≤ t.2 ∧ t.2 ≤ hi) :
    lo * (ws.map (·.1)).sum ≤ (ws.map fun t => t.1 * t.2).sum ∧
    (ws.map fun t => t.1 * t.2).sum ≤ hi * (ws.map (·.1)).sum := by
  induction ws with
  | nil => simp
  | cons t ws ih =>
    have ⟨h1, h2⟩ := ih (fun t ht => hw t (List.mem_cons_of_mem _ ht)) (fun t ht => hv t (List.mem_cons_of_mem _ ht))
    have hw0 := hw t (List.mem_cons_self)
    have ⟨hl, hh⟩ := hv t (List.mem_cons_self)
    simp only [List.map_cons, List.sum_cons]
    constructor <;> nlinarith

/-- Shepard IDW (fill of excluded meshes and BkgIDWInterpolator upscaling): with non-negative distances and
    reg ≥ 0 the interpolated value is a convex combination, hence within the range of the neighbour values -/
theorem idw_within_range (dvs : List (Rat × Rat × Bool)) (reg lo hi : Rat) (v : Rat)
    (hd : ∀ t ∈ dvs, 0 ≤ t.1 + reg) (hv : ∀ t ∈ dvs, lo ≤ t.2.1 ∧ t.2.1 ≤ hi)
    (h : idwPoint dvs reg = some v) : lo ≤ v ∧ v ≤ hi := by
  unfold idwPoint at h
  split at h
  · cases h
  · split at h
    · rename_i t ht
      cases h
      exact hv t (List.mem_of_find?_eq_some ht)
    · simp only at h
      split at h
      · rename_i hpos
        cases h
        rw [sumQ_eq] at hpos
        rw [sumQ_eq, sumQ_eq]
        have hb := sum_weighted_bounds (dvs.map fun t => (1 / (t.1 + reg), t.2.1)) lo hi
          (by
            intro t ht
            rcases List.mem_map.mp ht with ⟨u, hu, rfl⟩
            exact div_nonneg zero_le_one (hd u hu))
          (by
            intro t ht
            rcases List.mem_map.mp ht with ⟨u, hu, rfl⟩
            exact hv u hu)
        constructor
        · rw [le_div_iff₀ hpos]; exact hb.1
        · rw [div_le_iff₀ hpos]; exact hb.2
      · cases h

/-- the clipped spline interpolator never leaves the range of the mesh -/
theorem clip_within_range (lo hi x : Rat) (h : lo ≤ hi) : lo ≤ clipTo lo hi x ∧ clipTo lo hi x ≤ hi := by
  unfold clipTo
  split
  · exact ⟨le_refl _, h⟩
  · split
    · exact ⟨h, le_refl _⟩
    · constructor <;> linarith

theorem clip_id_in_range (lo hi x : Rat) (h1 : lo ≤ x) (h2 : x ≤ hi) : clipTo lo hi x = x := by
  unfold clipTo
  rw [if_neg (by linarith), if_neg (by linarith)]

theorem coverage_gets_fill (fill x : Rat) : finalPixel true fill x = fill ∧ finalPixel false fill x = x := ⟨rfl, rfl⟩

-- non-vacuity (evaluated, a test): 2-sigma clipping of 1,2,3,4,100 rejects 100
#guard sigclip 2 5 [1, 2, 3, 4, 100] == [1, 2, 3, 4]
-- astropy's re-admission: 2 and 2 are dropped in pass 1, but lie inside the final bounds
#guard sigclip 1 3 [100, 3, 3, 8, 40, 9, 8, 3, 2, 2, 7, 8, 5] == [3, 3, 3, 2, 2]
#guard nboxY { ny := 7, nx := 5, boxY := 3, boxX := 2, excludePct := 10, sigma := none, maxiters := 0 } == 3

end PhotVerif.C11
