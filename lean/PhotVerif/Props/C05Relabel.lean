/-
  C05, clause "relabel=True leaves labels 1..N": state-level theorems for every mutator of the SegmentationImage model.
  (Defect F38 was a violation of exactly this clause: the early returns ignored `relabel`.)
-/
import PhotVerif.Props.C05
namespace PhotVerif.C05
open PhotVerif PhotVerif.Model.Segm PhotVerif.Gen.SegmTable

/-- the labels of the state's array are exactly 1, 2, …, N -/
def Consecutive (s : State) : Prop :=
  dLabels s.n s.d = (List.range (dLabels s.n s.d).length).map (1 + ·)

theorem consec_of_eq (l : List Nat) (k : Nat) (h : l = (List.range k).map (1 + ·)) :
    l = (List.range l.length).map (1 + ·) := by subst h; simp

theorem Consecutive.of_frame {s t : State} (hf : SameFrame s t) (h : Consecutive s) : Consecutive t := by
  unfold Consecutive at *; rw [hf.1, hf.2.2]; exact h

/-! ### a strictly increasing list whose last element is head + length − 1 is head, head+1, … -/

theorem sorted_getElem_ge (l : List Nat) (hs : l.Pairwise (· < ·)) (i k : Nat) (h : i + k < l.length) :
    l[i]'(by omega) + k ≤ l[i + k] := by
  induction k with
  | zero => simp
  | succ k ih =>
    have h1 := ih (by omega)
    have h2 : l[i + k]'(by omega) < l[i + k + 1]'(by omega) :=
      (List.pairwise_iff_getElem.mp hs) (i + k) (i + k + 1) (by omega) (by omega) (by omega)
    have : i + (k + 1) = i + k + 1 := by omega
    simp only [this]
    omega

theorem eq_range_of_sorted_head_last (l : List Nat) (hs : l.Pairwise (· < ·)) (hne : l ≠ [])
    (hl : l.getLastD 0 - l.headD 0 + 1 = l.length) :
    l = (List.range l.length).map (l.headD 0 + ·) := by
  have hpos : 0 < l.length := List.length_pos_iff.mpr hne
  have hhead : l.headD 0 = l[0] := by
    cases l with
    | nil => exact absurd rfl hne
    | cons x xs => rfl
  have hlast : l.getLastD 0 = l[l.length - 1] := by
    rw [List.getLastD_eq_getLast?, List.getLast?_eq_getElem?]
    simp [List.getElem?_eq_getElem (show l.length - 1 < l.length by omega)]
  rw [hhead, hlast] at hl
  rw [hhead]
  apply List.ext_getElem
  · simp
  · intro i h1 h2
    simp only [List.getElem_map, List.getElem_range]
    have a1 := sorted_getElem_ge l hs 0 i (by omega)
    have a2 := sorted_getElem_ge l hs i (l.length - 1 - i) (by omega)
    have e : i + (l.length - 1 - i) = l.length - 1 := by omega
    simp only [Nat.zero_add] at a1
    simp only [e] at a2
    have a3 := sorted_getElem_ge l hs 0 (l.length - 1) (by omega)
    simp only [Nat.zero_add] at a3
    omega

/-! ### relabel_consecutive(1) -/

theorem relabelConsecutive_consecutive (s : State) (h : Inv s) :
    (relabelConsecutive s 1).2 = .ok () → Consecutive (relabelConsecutive s 1).1 := by
  unfold relabelConsecutive
  obtain ⟨hv1, hi1, hf1⟩ := readNlabels_ok s h
  simp only
  split
  · rename_i hz
    intro _
    unfold Consecutive
    have : (dLabels (readNlabels s).1.n (readNlabels s).1.d).length = 0 := by
      rw [hf1.1, hf1.2.2, ← hv1]; exact hz
    rw [List.length_eq_zero_iff.mp this]; rfl
  · split
    · rename_i hle; exact absurd hle (by decide)
    · split
      · intro hc; cases hc
      · obtain ⟨hv2, hi2, hf2⟩ := readLabels_ok _ hi1
        split
        · rename_i hz _ _ hsc
          intro _
          unfold Consecutive
          have hlabs : (readLabels (readNlabels s).1).2
              = dLabels (readLabels (readNlabels s).1).1.n (readLabels (readNlabels s).1).1.d := by
            rw [hv2, hf2.1, hf2.2.2]
          have hnl : (readNlabels s).2
              = (dLabels (readLabels (readNlabels s).1).1.n (readLabels (readNlabels s).1).1.d).length := by
            rw [hv1, hf2.1, hf2.2.2, hf1.1, hf1.2.2]
          rw [hlabs, hnl] at hsc
          simp only [Bool.and_eq_true, beq_iff_eq] at hsc
          have hne : dLabels (readLabels (readNlabels s).1).1.n (readLabels (readNlabels s).1).1.d ≠ [] := by
            intro he; apply hz; rw [hnl, he]; rfl
          have key := eq_range_of_sorted_head_last _ (dLabels_sorted _ _) hne hsc.2
          have h1 : (1 : Int).toNat = 1 := rfl
          rw [hsc.1, h1] at key
          exact key
        · obtain ⟨_, hi3, hf3⟩ := readMax_ok _ hi2
          intro _
          have h1 : (1 : Int).toNat = 1 := rfl
          simp only [h1]
          unfold Consecutive
          have e1 : (readLabels (readNlabels s).1).2
              = dLabels (readMax (readLabels (readNlabels s).1).1).1.n (readMax (readLabels (readNlabels s).1).1).1.d := by
            rw [hv2, hf3.1, hf3.2.2, hf2.1, hf2.2.2]
          rw [e1]
          generalize (readMax (readLabels (readNlabels s).1).1).1 = t
          generalize (readLabels (readNlabels s).1).1.cSlices = o
          generalize (List.range (readNlabels s).2).map (1 + ·) = nl
          have hn : (commit relabelRow t ((Array.range t.n).map fun p => rankMap (dLabels t.n t.d) 1 (t.d p))
              (rankMap (dLabels t.n t.d) 1) nl o).n = t.n := by cases o <;> rfl
          have hd : (commit relabelRow t ((Array.range t.n).map fun p => rankMap (dLabels t.n t.d) 1 (t.d p))
              (rankMap (dLabels t.n t.d) 1) nl o).d
              = fun p => ((Array.range t.n).map fun p => rankMap (dLabels t.n t.d) 1 (t.d p)).getD p 0 := by cases o <;> rfl
          rw [hn, hd, dLabels_congr t.n _ _ (fun p hp => getD_map_range t.n _ p hp)]
          exact consec_of_eq _ _ (relabel_labels t.n t.d 1 (by omega))

/-! ### reassign / remove / keep / masked / border with relabel=True -/

theorem reassign_consecutive (s : State) (h : Inv s) (ls : List Nat) (new : Nat) :
    (reassign s ls new true).2 = .ok () → Consecutive (reassign s ls new true).1 := by
  unfold reassign
  obtain ⟨hi1, _⟩ := checkLabels_ok s h ls
  simp only
  split
  · intro hc; cases hc
  · split
    · simp only [if_true]
      exact relabelConsecutive_consecutive _ hi1
    · split
      · intro hc; cases hc
      · intro _
        simp only [if_true]
        unfold Consecutive
        generalize (readLabels (readMax (checkLabels s ls).1).1).1 = t
        have hn : ∀ (newd : Array Nat) (f : Nat → Nat), (commit reassignRow t newd f [] none).n = t.n := fun _ _ => rfl
        have hd : ∀ (newd : Array Nat) (f : Nat → Nat), (commit reassignRow t newd f [] none).d = fun p => newd.getD p 0 :=
          fun _ _ => rfl
        rw [hn, hd, dLabels_congr t.n _ _ (fun p hp => getD_map_range t.n _ p hp)]
        exact consec_of_eq _ _ (reassign_relabel_labels t.n t.d ls new)

theorem removeLabels_consecutive (s : State) (h : Inv s) (ls : List Nat) :
    (removeLabels s ls true).2 = .ok () → Consecutive (removeLabels s ls true).1 := by
  unfold removeLabels
  obtain ⟨hi1, _⟩ := checkLabels_ok s h ls
  simp only
  split
  · intro hc; cases hc
  · exact reassign_consecutive _ hi1 _ _

theorem keepLabels_consecutive (s : State) (h : Inv s) (ls : List Nat) :
    (keepLabels s ls true).2 = .ok () → Consecutive (keepLabels s ls true).1 := by
  unfold keepLabels
  obtain ⟨hi1, _⟩ := checkLabels_ok s h ls
  simp only
  split
  · intro hc; cases hc
  · obtain ⟨_, hi2, _⟩ := readLabels_ok _ hi1
    exact removeLabels_consecutive _ hi2 _

theorem removeMasked_consecutive (s : State) (h : Inv s) (mask : Nat → Bool) (po : Bool) :
    (removeMasked s mask po true).2 = .ok () → Consecutive (removeMasked s mask po true).1 := by
  unfold removeMasked
  exact removeLabels_consecutive _ h _

theorem removeBorder_consecutive (s : State) (h : Inv s) (w : Nat) (po : Bool) :
    (removeBorder s w po true).2 = .ok () → Consecutive (removeBorder s w po true).1 := by
  unfold removeBorder
  split
  · intro hc; cases hc
  · exact removeMasked_consecutive _ h _ _

/-- which operations ask for consecutive labels -/
def asksRelabel : Op → Bool
  | .reassign _ _ rl => rl
  | .relabel st => st == 1
  | .keep _ rl => rl
  | .remove _ rl => rl
  | .removeMasked _ _ rl => rl
  | .removeBorder _ _ rl => rl
  | _ => false

theorem ofExcept_unit (r : State × Except Err Unit) (h : (ofExcept r).2 = .unit) : r.2 = .ok () := by
  obtain ⟨s, e⟩ := r
  cases e with
  | ok u => rfl
  | error e => change Out.err e = Out.unit at h; cases h

/-- PROPERTY CLAUSE: after any operation called with `relabel=True` (or `relabel_consecutive()`) that succeeds, the labels of
    the array are exactly 1..N — whatever the state and whether or not the operation had anything to remove (defect F38) -/
theorem step_relabel_consecutive (s : State) (h : Inv s) (o : Op) (hr : asksRelabel o = true)
    (hok : (step s o).2 = .unit) : Consecutive (step s o).1 := by
  cases o with
  | reassign ls new rl =>
    simp only [asksRelabel] at hr; subst hr
    simp only [step] at hok ⊢
    rw [ofExcept_fst]; exact reassign_consecutive s h ls new (ofExcept_unit _ hok)
  | relabel st =>
    simp only [asksRelabel, beq_iff_eq] at hr; subst hr
    simp only [step] at hok ⊢
    rw [ofExcept_fst]; exact relabelConsecutive_consecutive s h (ofExcept_unit _ hok)
  | keep ls rl =>
    simp only [asksRelabel] at hr; subst hr
    simp only [step] at hok ⊢
    rw [ofExcept_fst]; exact keepLabels_consecutive s h ls (ofExcept_unit _ hok)
  | remove ls rl =>
    simp only [asksRelabel] at hr; subst hr
    simp only [step] at hok ⊢
    rw [ofExcept_fst]; exact removeLabels_consecutive s h ls (ofExcept_unit _ hok)
  | removeMasked m po rl =>
    simp only [asksRelabel] at hr; subst hr
    simp only [step] at hok ⊢
    split at hok
    · simp at hok
    · rename_i hlen
      rw [if_neg hlen, ofExcept_fst]
      exact removeMasked_consecutive s h _ po (ofExcept_unit _ hok)
  | removeBorder w po rl =>
    simp only [asksRelabel] at hr; subst hr
    simp only [step] at hok ⊢
    rw [ofExcept_fst]; exact removeBorder_consecutive s h w po (ofExcept_unit _ hok)
  | readLabels => simp [asksRelabel] at hr
  | readRaw => simp [asksRelabel] at hr
  | readSlices => simp [asksRelabel] at hr
  | readAreas => simp [asksRelabel] at hr
  | readNlabels => simp [asksRelabel] at hr
  | readMax => simp [asksRelabel] at hr
  | setData ny nx data dtmax => simp [asksRelabel] at hr

/-- non-vacuity: a 1 x 4 image with labels {2, 5}; `remove_labels([], relabel=True)` (nothing to remove) yields labels 1, 2 -/
example : dLabels 4 (removeLabels (init 1 4 #[2, 0, 5, 5] 255) [] true).1.d = [1, 2] := by decide +kernel

end PhotVerif.C05
