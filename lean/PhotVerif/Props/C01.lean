/-
  C01 — bounding boxes and overlap slices (theorems about the definitions that
  tools/gen_lean.py regenerates from photutils/aperture/bounding_box.py).
-/
import PhotVerif.Gen.BBox
import PhotVerif.Model.Mask
import PhotVerif.Proofs.FieldInst
import Mathlib.Tactic.Linarith
import Mathlib.Tactic.NormNum

namespace PhotVerif.C01
open PhotVerif PhotVerif.Gen

/-- closed pixel span of index interval `[lo,hi)` contains `[a,b]`
    (pixel `i` spans `[i-1/2, i+1/2]`). -/
def Covers1 {α : Type} [Field α] [LinearOrder α] (lo hi : Int) (a b : α) : Prop :=
  (lo : α) - 1/2 ≤ a ∧ b ≤ (hi : α) - 1/2

theorem init_ok (a b c d : Int) (h1 : a ≤ b) (h2 : c ≤ d) : BBox.init a b c d = .ok ⟨a, b, c, d⟩ := by
  simp only [BBox.init, gt_iff_lt]
  rw [if_neg (by omega), if_neg (by omega)]

theorem init_err (a b c d : Int) (h : b < a ∨ d < c) : BBox.init a b c d = .error Err.ValueError := by
  simp only [BBox.init, gt_iff_lt]
  by_cases h1 : b < a
  · rw [if_pos h1]
  · rw [if_neg h1, if_pos (by omega)]

section fromFloat
variable {α : Type} [Field α] [LinearOrder α] [IsStrictOrderedRing α] [FloorRing α] [MathOps α]

/-- `from_float` succeeds on a well-ordered rectangle, the returned integer box
    covers the rectangle, and every integer box that covers it contains the returned one. -/
theorem fromFloat_least_cover (xmin xmax ymin ymax : α) (hx : xmin ≤ xmax) (hy : ymin ≤ ymax) :
    ∃ b : BBox, BBox.fromFloat xmin xmax ymin ymax = .ok b ∧
      Covers1 b.ixmin b.ixmax xmin xmax ∧ Covers1 b.iymin b.iymax ymin ymax ∧
      ∀ lo hi : Int, (Covers1 lo hi xmin xmax → lo ≤ b.ixmin ∧ b.ixmax ≤ hi) ∧
                     (Covers1 lo hi ymin ymax → lo ≤ b.iymin ∧ b.iymax ≤ hi) := by
  have fx : Int.floor (xmin + 0.5) ≤ Int.ceil (xmax + 0.5) := by
    have h1 := Int.floor_le (xmin + 0.5)
    have h2 := Int.le_ceil (xmax + 0.5)
    have : ((Int.floor (xmin + 0.5) : Int) : α) ≤ (Int.ceil (xmax + 0.5) : Int) := by linarith
    exact_mod_cast this
  have fy : Int.floor (ymin + 0.5) ≤ Int.ceil (ymax + 0.5) := by
    have h1 := Int.floor_le (ymin + 0.5)
    have h2 := Int.le_ceil (ymax + 0.5)
    have : ((Int.floor (ymin + 0.5) : Int) : α) ≤ (Int.ceil (ymax + 0.5) : Int) := by linarith
    exact_mod_cast this
  refine ⟨⟨Int.floor (xmin + 0.5), Int.ceil (xmax + 0.5), Int.floor (ymin + 0.5),
           Int.ceil (ymax + 0.5)⟩, ?_, ?_, ?_, ?_⟩
  · simp only [BBox.fromFloat, BBox.init, FloorOps.floorI, FloorOps.ceilI, gt_iff_lt]
    rw [if_neg (not_lt.mpr fx), if_neg (not_lt.mpr fy)]
  · have h1 := Int.floor_le (xmin + 0.5)
    have h2 := Int.le_ceil (xmax + 0.5)
    constructor <;> norm_num at * <;> linarith
  · have h1 := Int.floor_le (ymin + 0.5)
    have h2 := Int.le_ceil (ymax + 0.5)
    constructor <;> norm_num at * <;> linarith
  · intro lo hi
    constructor
    · rintro ⟨h1, h2⟩
      exact ⟨Int.le_floor.mpr (by norm_num; linarith), Int.ceil_le.mpr (by norm_num; linarith)⟩
    · rintro ⟨h1, h2⟩
      exact ⟨Int.le_floor.mpr (by norm_num; linarith), Int.ceil_le.mpr (by norm_num; linarith)⟩

/-- a reversed rectangle whose rounded bounds are reversed is rejected, never defaulted -/
theorem fromFloat_error_iff (xmin xmax ymin ymax : α) :
    (∃ e, BBox.fromFloat xmin xmax ymin ymax = .error e) ↔
      (Int.ceil (xmax + 0.5) < Int.floor (xmin + 0.5) ∨ Int.ceil (ymax + 0.5) < Int.floor (ymin + 0.5)) := by
  simp only [BBox.fromFloat, BBox.init, FloorOps.floorI, FloorOps.ceilI, gt_iff_lt]
  by_cases h1 : Int.ceil (xmax + 0.5) < Int.floor (xmin + 0.5)
  · simp [h1]
  · by_cases h2 : Int.ceil (ymax + 0.5) < Int.floor (ymin + 0.5)
    · simp [h1, h2]
    · simp [h1, h2]

end fromFloat

/-! ### overlap slices -/

def inBox (b : BBox) (y x : Int) : Prop := b.iymin ≤ y ∧ y < b.iymax ∧ b.ixmin ≤ x ∧ x < b.ixmax
def inImg (ny nx y x : Int) : Prop := 0 ≤ y ∧ y < ny ∧ 0 ≤ x ∧ x < nx
def inSl (s : Slc × Slc) (y x : Int) : Prop :=
  s.1.start ≤ y ∧ y < s.1.stop ∧ s.2.start ≤ x ∧ x < s.2.stop
instance (b : BBox) (y x : Int) : Decidable (inBox b y x) := by unfold inBox; infer_instance
instance (ny nx y x : Int) : Decidable (inImg ny nx y x) := by unfold inImg; infer_instance

theorem overlap_never_raises (b : BBox) (ny nx : Int) :
    ∃ r, BBox.getOverlapSlices b (ny, nx) = .ok r := by
  simp only [BBox.getOverlapSlices, ne_eq, not_true_eq_false, if_false]
  split <;> exact ⟨_, rfl⟩

/-- `None` is returned iff box and image have no common pixel (non-empty box, image ≥ 1×1). -/
theorem overlap_none_iff (b : BBox) (ny nx : Int) (hx : b.ixmin < b.ixmax) (hy : b.iymin < b.iymax)
    (hny : 0 < ny) (hnx : 0 < nx) :
    BBox.getOverlapSlices b (ny, nx) = .ok none ↔ ¬ ∃ y x, inBox b y x ∧ inImg ny nx y x := by
  simp only [BBox.getOverlapSlices, ne_eq, not_true_eq_false, if_false]
  unfold inBox inImg
  constructor
  · intro h
    split at h
    · rintro ⟨y, x, h1, h2⟩; omega
    · simp at h
  · intro h
    split
    · rfl
    · exfalso; apply h
      refine ⟨max b.iymin 0, max b.ixmin 0, ?_, ?_⟩ <;> omega

/-- when slices are returned, `large` selects exactly the common pixels and `small`
    is `large` re-based to the box origin. -/
theorem overlap_some_exact (b : BBox) (ny nx : Int) (L S : Slc × Slc)
    (h : BBox.getOverlapSlices b (ny, nx) = .ok (some (L, S))) (y x : Int) :
    (inSl L y x ↔ inBox b y x ∧ inImg ny nx y x) ∧
    (inSl S (y - b.iymin) (x - b.ixmin) ↔ inSl L y x) := by
  simp only [BBox.getOverlapSlices, ne_eq, not_true_eq_false, if_false] at h
  split at h
  · simp at h
  · simp only [Except.ok.injEq, Option.some.injEq, Prod.mk.injEq] at h
    obtain ⟨hL, hS⟩ := h
    subst hL; subst hS
    unfold inSl inBox inImg pymax pymin
    simp only
    split <;> split <;> split <;> split <;> split <;> split <;> split <;> split <;> omega

/-- the two slice pairs have identical extents -/
theorem overlap_same_extent (b : BBox) (ny nx : Int) (L S : Slc × Slc)
    (h : BBox.getOverlapSlices b (ny, nx) = .ok (some (L, S))) :
    L.1.stop - L.1.start = S.1.stop - S.1.start ∧ L.2.stop - L.2.start = S.2.stop - S.2.start := by
  simp only [BBox.getOverlapSlices, ne_eq, not_true_eq_false, if_false] at h
  split at h
  · simp at h
  · simp only [Except.ok.injEq, Option.some.injEq, Prod.mk.injEq] at h
    obtain ⟨hL, hS⟩ := h
    subst hL; subst hS
    unfold pymax pymin
    simp only
    split <;> split <;> split <;> split <;> split <;> split <;> split <;> split <;> omega

/-- `small` is `large` shifted by the box origin -/
theorem overlap_small_rebased (b : BBox) (ny nx : Int) (L S : Slc × Slc)
    (h : BBox.getOverlapSlices b (ny, nx) = .ok (some (L, S))) :
    S.1.start = L.1.start - b.iymin ∧ S.1.stop = L.1.stop - b.iymin ∧
    S.2.start = L.2.start - b.ixmin ∧ S.2.stop = L.2.stop - b.ixmin := by
  simp only [BBox.getOverlapSlices, ne_eq, not_true_eq_false, if_false] at h
  split at h
  · simp at h
  · simp only [Except.ok.injEq, Option.some.injEq, Prod.mk.injEq] at h
    obtain ⟨hL, hS⟩ := h
    subst hL; subst hS
    unfold pymax pymin
    simp only
    split <;> split <;> split <;> split <;> split <;> split <;> split <;> split <;> omega

-- non-vacuity: a box straddling the corner of a 7×9 image
example : BBox.getOverlapSlices ⟨-2, 3, 5, 12⟩ (7, 9) = .ok (some ((⟨5, 7⟩, ⟨0, 3⟩), (⟨0, 2⟩, ⟨2, 5⟩))) := by
  decide

/-! ### union / intersection -/

theorem union_least_upper (a b : BBox) (ha : a.ixmin ≤ a.ixmax ∧ a.iymin ≤ a.iymax)
    (hb : b.ixmin ≤ b.ixmax ∧ b.iymin ≤ b.iymax) :
    ∃ u, BBox.union a b = .ok u ∧
      (∀ y x, inBox a y x ∨ inBox b y x → inBox u y x) ∧
      (∀ c : BBox, (∀ y x, inBox a y x ∨ inBox b y x → inBox c y x) →
        a.ixmin < a.ixmax → a.iymin < a.iymax → b.ixmin < b.ixmax → b.iymin < b.iymax →
        ∀ y x, inBox u y x → inBox c y x) := by
  refine ⟨⟨pymin a.ixmin b.ixmin, pymax a.ixmax b.ixmax, pymin a.iymin b.iymin,
    pymax a.iymax b.iymax⟩, ?_, ?_, ?_⟩
  · simp only [BBox.union]
    apply init_ok <;> (unfold pymin pymax; split <;> split <;> omega)
  · intro y x h
    unfold inBox pymin pymax at *
    simp only
    split <;> split <;> split <;> split <;> omega
  · intro c hc h1 h2 h3 h4 y x hu
    have ca1 := hc a.iymin a.ixmin (Or.inl ⟨by omega, by omega, by omega, by omega⟩)
    have ca2 := hc (a.iymax - 1) (a.ixmax - 1) (Or.inl ⟨by omega, by omega, by omega, by omega⟩)
    have cb1 := hc b.iymin b.ixmin (Or.inr ⟨by omega, by omega, by omega, by omega⟩)
    have cb2 := hc (b.iymax - 1) (b.ixmax - 1) (Or.inr ⟨by omega, by omega, by omega, by omega⟩)
    unfold inBox pymin pymax at *
    simp only at hu
    split at hu <;> split at hu <;> split at hu <;> split at hu <;> omega

theorem intersection_exact (a b : BBox) :
    (BBox.intersection a b = .ok none ↔
      (pymin a.ixmax b.ixmax < pymax a.ixmin b.ixmin ∨ pymin a.iymax b.iymax < pymax a.iymin b.iymin)) ∧
    (∀ c, BBox.intersection a b = .ok (some c) → ∀ y x, inBox c y x ↔ inBox a y x ∧ inBox b y x) := by
  by_cases h : (pymin a.ixmax b.ixmax < pymax a.ixmin b.ixmin ∨ pymin a.iymax b.iymax < pymax a.iymin b.iymin)
  · simp only [BBox.intersection, if_pos h]
    simp [h]
  · have e := init_ok (pymax a.ixmin b.ixmin) (pymin a.ixmax b.ixmax) (pymax a.iymin b.iymin)
        (pymin a.iymax b.iymax) (by omega) (by omega)
    simp only [BBox.intersection, if_neg h, e]
    refine ⟨by simp [h], ?_⟩
    intro c hc y x
    simp only [Except.ok.injEq, Option.some.injEq] at hc
    subst hc
    unfold inBox pymin pymax
    simp only
    split <;> split <;> split <;> split <;> omega

/-- disjoint boxes (no common pixel) intersect to `None` or to an empty box, never to a wrong one -/
theorem intersection_none_disjoint (a b : BBox)
    (h : BBox.intersection a b = .ok none) : ¬ ∃ y x, inBox a y x ∧ inBox b y x := by
  have := (intersection_exact a b).1.mp h
  rintro ⟨y, x, h1, h2⟩
  unfold inBox pymin pymax at *
  revert this
  split <;> split <;> split <;> split <;> omega

/-! ### registration of the weight map (`to_image`, `cutout`) -/
open PhotVerif.Model in
/-- `to_image` places weight (j,i) of the mask at image pixel (iymin+j, ixmin+i) and 0 elsewhere -/
theorem toImage_registered {α : Type} [OfNat α 0] (b : BBox) (w : Int → Int → α) (ny nx : Int)
    (img : Int → Int → α) (h : toImage b w ny nx = .ok (some img)) (y x : Int) (hin : inImg ny nx y x) :
    img y x = if inBox b y x then w (y - b.iymin) (x - b.ixmin) else 0 := by
  unfold toImage at h
  split at h
  · simp at h
  · simp at h
  · rename_i ly lx sy sx heq
    simp only [Except.ok.injEq, Option.some.injEq] at h
    subst h
    have hx := overlap_some_exact b ny nx (ly, lx) (sy, sx) heq y x
    have hext := overlap_same_extent b ny nx (ly, lx) (sy, sx) heq
    unfold inSl at hx
    simp only at hx hext
    by_cases hb : inBox b y x
    · have hl : ly.start ≤ y ∧ y < ly.stop ∧ lx.start ≤ x ∧ x < lx.stop := hx.1.mpr ⟨hb, hin⟩
      simp only [hl, hb, and_self, if_true]
      have hr := overlap_small_rebased b ny nx (ly, lx) (sy, sx) heq
      simp only at hr
      rw [hr.1, hr.2.2.1]
      congr 1 <;> omega
    · have hl : ¬ (ly.start ≤ y ∧ y < ly.stop ∧ lx.start ≤ x ∧ x < lx.stop) := fun hl => hb (hx.1.mp hl).1
      simp only [hl, hb, if_false]

open PhotVerif.Model in
/-- `to_image` returns None exactly when `get_overlap_slices` does -/
theorem toImage_none_iff {α : Type} [OfNat α 0] (b : BBox) (w : Int → Int → α) (ny nx : Int) :
    toImage b w ny nx = .ok none ↔ BBox.getOverlapSlices b (ny, nx) = .ok none := by
  unfold toImage
  split <;> simp_all

open PhotVerif.Model in
/-- `cutout` is the adjoint: cut-out pixel (j,i) shows image pixel (iymin+j, ixmin+i), or the fill value -/
theorem cutout_registered {α : Type} (b : BBox) (data : Int → Int → α) (ny nx : Int) (fill : α)
    (c : Int → Int → α) (h : cutout b data ny nx fill = .ok (some c)) (j i : Int)
    (hj : 0 ≤ j ∧ j < b.iymax - b.iymin) (hi : 0 ≤ i ∧ i < b.ixmax - b.ixmin) :
    c j i = if inImg ny nx (j + b.iymin) (i + b.ixmin) then data (j + b.iymin) (i + b.ixmin) else fill := by
  unfold cutout at h
  split at h
  · simp at h
  · simp at h
  · rename_i ly lx sy sx heq
    simp only [Except.ok.injEq, Option.some.injEq] at h
    subst h
    have hx := overlap_some_exact b ny nx (ly, lx) (sy, sx) heq (j + b.iymin) (i + b.ixmin)
    unfold inSl inBox at hx
    simp only at hx
    have ej : j + b.iymin - b.iymin = j := by omega
    have ei : i + b.ixmin - b.ixmin = i := by omega
    rw [ej, ei] at hx
    by_cases him : inImg ny nx (j + b.iymin) (i + b.ixmin)
    · have hl := hx.1.mpr ⟨⟨by omega, by omega, by omega, by omega⟩, him⟩
      have hs := hx.2.mpr hl
      simp only [hs, him, and_self, if_true]
      have hr := overlap_small_rebased b ny nx (ly, lx) (sy, sx) heq
      simp only at hr
      rw [hr.1, hr.2.2.1]
      congr 1 <;> omega
    · have hs : ¬ (sy.start ≤ j ∧ j < sy.stop ∧ sx.start ≤ i ∧ i < sx.stop) :=
        fun hs => him (hx.1.mp (hx.2.mp hs)).2
      simp only [hs, him, if_false]

end PhotVerif.C01
