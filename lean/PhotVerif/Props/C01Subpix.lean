/-
  C01 — 'center'/'subpixel' weights are the fraction of sub-pixel centres inside the shape.
  Theorems about the kernels regenerated from photutils/geometry/*.pyx.
-/
import PhotVerif.Gen.Geom
import PhotVerif.Proofs.FieldInst
import PhotVerif.Proofs.Loops

set_option linter.unusedSectionVars false
namespace PhotVerif.C01
open PhotVerif PhotVerif.Gen

section
variable {α : Type} [Field α] [LinearOrder α] [IsStrictOrderedRing α] [FloorRing α] [MathOps α]

/-- number of sub-pixel centres `(x0 + (i+½)·dx, y0 + (j+½)·dy)`, `i, j < s`, satisfying `inside` -/
def centreCount (inside : α → α → Prop) [∀ x y, Decidable (inside x y)] (s : Nat) (x0 y0 dx dy : α) : Nat :=
  ((List.range s).map (fun (i : Nat) =>
    (List.range s).countP (fun (j : Nat) =>
      decide (inside (x0 + ((i : α) + 1/2) * dx) (y0 + ((j : α) + 1/2) * dy))))).sum

theorem centreCount_le (inside : α → α → Prop) [∀ x y, Decidable (inside x y)] (s : Nat) (x0 y0 dx dy : α) :
    centreCount inside s x0 y0 dx dy ≤ s * s := by
  unfold centreCount
  have : ∀ l : List Nat, (l.map (fun (i : Nat) =>
      (List.range s).countP (fun (j : Nat) =>
        decide (inside (x0 + ((i : α) + 1/2) * dx) (y0 + ((j : α) + 1/2) * dy))))).sum ≤ l.length * s := by
    intro l
    induction l with
    | nil => simp
    | cons a l ih =>
      simp only [List.map_cons, List.sum_cons, List.length_cons]
      have h1 := List.countP_le_length (p := fun (j : Nat) =>
        decide (inside (x0 + ((a : α) + 1/2) * dx) (y0 + ((j : α) + 1/2) * dy))) (l := List.range s)
      simp only [List.length_range] at h1
      nlinarith
  simpa using this (List.range s)

/-- the double loop shared by the three sub-pixel kernels, for an arbitrary shape predicate -/
theorem subpixel_loop (inside : α → α → Prop) [∀ x y, Decidable (inside x y)] (x0 y0 dx dy : α) (s : Nat) :
    (forRange (σ := α × α) s (x0 - 0.5 * dx, (0.0 : α)) (fun _ s_ =>
      match s_ with
      | (x, frac) =>
        match forRange (σ := α × α) s (y0 - 0.5 * dy, frac) (fun _ s_ =>
          match s_ with
          | (y, frac) => if inside (x + dx) (y + dy) then (y + dy, frac + 1.0) else (y + dy, frac)) with
        | (_, frac) => (x + dx, frac))).2
      = (centreCount inside s x0 y0 dx dy : α) := by
  unfold centreCount
  have inner : ∀ (x c : α), forRange (σ := α × α) s (y0 - 0.5 * dy, c) (fun _ s_ =>
      match s_ with
      | (y, frac) => if inside x (y + dy) then (y + dy, frac + 1.0) else (y + dy, frac))
      = (y0 - 0.5 * dy + s * dy, c + ((List.range s).countP (fun (j : Nat) =>
          decide (inside x (y0 - 0.5 * dy + ((j : α) + 1) * dy))) : Nat)) := by
    intro x c
    apply count_loop s (y0 - 0.5 * dy) dy (fun y => inside x y)
    intro j y c
    norm_num
  have outer := sum_loop s (x0 - 0.5 * dx) dx
    (fun x => (List.range s).countP (fun (j : Nat) =>
      decide (inside x (y0 - 0.5 * dy + ((j : α) + 1) * dy))))
    (0.0 : α)
    (fun _ s_ => match s_ with
      | (x, frac) =>
        match forRange (σ := α × α) s (y0 - 0.5 * dy, frac) (fun _ s_ =>
          match s_ with
          | (y, frac) => if inside (x + dx) (y + dy) then (y + dy, frac + 1.0) else (y + dy, frac)) with
        | (_, frac) => (x + dx, frac))
    (by intro i x c; simp only [inner])
  simp only [outer]
  norm_num
  congr 1
  apply List.map_congr_left
  intro i _
  apply List.countP_congr
  intro j _
  have e1 : x0 - 1/2 * dx + ((i : α) + 1) * dx = x0 + ((i : α) + 1/2) * dx := by ring
  have e2 : y0 - 1/2 * dy + ((j : α) + 1) * dy = y0 + ((j : α) + 1/2) * dy := by ring
  norm_num at e1 e2 ⊢
  rw [e1, e2]

/-- circle, centre/sub-pixel sampling: the generated double loop returns
    (#sub-pixel centres strictly inside the circle) / s². -/
theorem circ_subpixel_is_counting (x0 y0 x1 y1 r : α) (s : Nat) :
    circular_overlap_single_subpixel x0 y0 x1 y1 r (s : Int)
      = (centreCount (fun x y => x * x + y * y < r * r) s x0 y0 ((x1 - x0) / s) ((y1 - y0) / s) : α)
        / ((s : α) * (s : α)) := by
  unfold circular_overlap_single_subpixel
  simp only [Int.toNat_natCast, Int.cast_natCast, Int.cast_mul]
  congr 1
  exact subpixel_loop (fun x y => x * x + y * y < r * r) x0 y0 ((x1 - x0) / s) ((y1 - y0) / s) s

/-- ellipse (semi-axes rx, ry, rotation through the supplied cos/sin): same statement -/
theorem ell_subpixel_is_counting (x0 y0 x1 y1 rx ry theta : α) (s : Nat) :
    elliptical_overlap_single_subpixel x0 y0 x1 y1 rx ry theta (s : Int)
      = (centreCount (fun x y =>
          (y * MathOps.sin theta + x * MathOps.cos theta) * (y * MathOps.sin theta + x * MathOps.cos theta)
              * (1.0 / (rx * rx))
            + (y * MathOps.cos theta - x * MathOps.sin theta) * (y * MathOps.cos theta - x * MathOps.sin theta)
              * (1.0 / (ry * ry)) < 1.0)
          s x0 y0 ((x1 - x0) / s) ((y1 - y0) / s) : α) / ((s : α) * (s : α)) := by
  unfold elliptical_overlap_single_subpixel
  simp only [Int.toNat_natCast, Int.cast_natCast, Int.cast_mul]
  congr 1
  exact subpixel_loop (fun x y =>
          (y * MathOps.sin theta + x * MathOps.cos theta) * (y * MathOps.sin theta + x * MathOps.cos theta)
              * (1.0 / (rx * rx))
            + (y * MathOps.cos theta - x * MathOps.sin theta) * (y * MathOps.cos theta - x * MathOps.sin theta)
              * (1.0 / (ry * ry)) < 1.0) x0 y0 ((x1 - x0) / s) ((y1 - y0) / s) s

/-- rotated rectangle: same statement with `|x'| < w/2 ∧ |y'| < h/2` -/
theorem rect_subpixel_is_counting (x0 y0 x1 y1 w h theta : α) (s : Nat) :
    rectangular_overlap_single_subpixel x0 y0 x1 y1 w h theta (s : Int)
      = (centreCount (fun x y =>
          MathOps.fabs (y * MathOps.sin theta + x * MathOps.cos theta) < w / 2.0 ∧
          MathOps.fabs (y * MathOps.cos theta - x * MathOps.sin theta) < h / 2.0)
          s x0 y0 ((x1 - x0) / s) ((y1 - y0) / s) : α) / ((s : α) * (s : α)) := by
  unfold rectangular_overlap_single_subpixel
  simp only [Int.toNat_natCast, Int.cast_natCast, Int.cast_mul]
  congr 1
  exact subpixel_loop (fun x y =>
          MathOps.fabs (y * MathOps.sin theta + x * MathOps.cos theta) < w / 2.0 ∧
          MathOps.fabs (y * MathOps.cos theta - x * MathOps.sin theta) < h / 2.0) x0 y0 ((x1 - x0) / s) ((y1 - y0) / s) s

/-- counting weights lie in `[0,1]` -/
theorem counting_weight_range (inside : α → α → Prop) [∀ x y, Decidable (inside x y)]
    (s : Nat) (hs : 0 < s) (x0 y0 dx dy : α) :
    0 ≤ (centreCount inside s x0 y0 dx dy : α) / ((s : α) * (s : α)) ∧
    (centreCount inside s x0 y0 dx dy : α) / ((s : α) * (s : α)) ≤ 1 := by
  have hpos : (0 : α) < (s : α) * (s : α) := by
    have : (0 : α) < (s : α) := by exact_mod_cast hs
    positivity
  constructor
  · positivity
  · rw [div_le_one hpos]
    have := centreCount_le inside s x0 y0 dx dy
    exact_mod_cast this

/-- 'center' is 'subpixel' with s = 1: one sample at the pixel centre -/
theorem centre_is_subpixel_one (inside : α → α → Prop) [∀ x y, Decidable (inside x y)] (x0 y0 dx dy : α) :
    centreCount inside 1 x0 y0 dx dy = if inside (x0 + 1/2 * dx) (y0 + 1/2 * dy) then 1 else 0 := by
  unfold centreCount
  simp [List.range_succ, List.countP_cons]

-- non-vacuity: unit pixel [0,1]², circle r=1, 2×2 sub-pixels: centres (¼,¼),(¼,¾),(¾,¼) inside, (¾,¾) outside
example : @circular_overlap_single_subpixel Rat _ _ _ _ _ _ _ _ _ _ _ _ _
    ⟨id, id, id, id, id, 0⟩ 0 0 1 1 1 2 = 3/4 := by decide +kernel

end
end PhotVerif.C01
