/-
  C08 — indexing a catalogue commutes with evaluating its properties, and a slice is independent
  of its parent.
-/
import PhotVerif.Model.CatSlice
import Mathlib.Data.List.Basic

namespace PhotVerif.C08
open PhotVerif.Model.CatSlice PhotVerif.Gen.CatSliceTable

/-- selecting positions commutes with mapping a per-source function -/
theorem sel_map {α β : Type} [Inhabited α] [Inhabited β] (g : α → β) (hd : g default = default)
    (idx : Index) (l : List α) :
    sel idx (l.map g) = (sel idx l).map (List.map g) := by
  unfold sel
  simp only [List.length_map, Option.map_map]
  congr 1
  funext ps
  simp only [Function.comp, List.map_map]
  apply List.map_congr_left
  intro k _
  simp only [Function.comp, List.getD_eq_getElem?_getD, List.getElem?_map]
  cases l[k]? <;> simp [hd]

/-- MAIN (commutation): for every per-source property, every index form and whether or not the property
    was evaluated before indexing: `cat[idx].p == cat.p[idx]`. -/
theorem getitem_commutes {α : Type} [Inhabited α] (f : Nat → Nat → α) (row : Row) (h : Heap) (c : Cat α)
    (idx : Index) (p : Nat) (c' : Cat α) (h' : Heap)
    (hcache : ∀ q v, (q, v) ∈ c.cache → v = compute f q c.labels)
    (hg : getitem row h c idx = some (c', h')) :
    some (readProp f c' p) = sel idx (readProp f c p) := by
  unfold getitem at hg
  cases hs : sel idx c.labels with
  | none => rw [hs] at hg; simp at hg
  | some labs =>
    rw [hs] at hg
    -- value of p in the parent is labels.map (f p), cached or not
    have hpar : readProp f c p = c.labels.map (f p) := by
      unfold readProp
      cases hf : c.cache.find? (·.1 == p) with
      | none => rfl
      | some qv =>
        obtain ⟨q, v⟩ := qv
        have hm := List.mem_of_find?_eq_some hf
        have hq : q = p := by simpa using List.find?_some hf
        simp only
        rw [hcache q v hm, hq]; rfl
    rw [hpar]
    have key : sel idx (c.labels.map (f p)) = some (labs.map (f p)) := by
      unfold sel at hs ⊢
      simp only [List.length_map]
      cases hp : positions c.labels.length idx with
      | none => rw [hp] at hs; simp at hs
      | some ps =>
        rw [hp] at hs
        simp only [Option.map_some, Option.some.injEq] at hs ⊢
        rw [← hs, List.map_map]
        apply List.map_congr_left
        intro k hk
        simp only [Function.comp, List.getD_eq_getElem?_getD, List.getElem?_map]
        -- k is a valid position (positions only returns indices < length)
        have hlt : k < c.labels.length := by
          cases idx with
          | int i =>
            simp only [positions, normIdx] at hp
            split at hp
            · simp only [Option.map_some, Option.some.injEq] at hp; subst hp
              simp only [List.mem_singleton] at hk; subst hk; omega
            · split at hp
              · simp only [Option.map_some, Option.some.injEq] at hp; subst hp
                simp only [List.mem_singleton] at hk; subst hk; omega
              · simp at hp
          | slice a b st =>
            simp only [positions] at hp
            split at hp
            · simp at hp
            · simp only [Option.some.injEq] at hp; subst hp
              exact List.mem_range.mp (List.mem_filter.mp hk).1
          | ints is =>
            simp only [positions] at hp
            have : ∀ (js : List Int) (ks : List Nat), js.mapM (normIdx c.labels.length) = some ks →
                ∀ k ∈ ks, k < c.labels.length := by
              intro js
              induction js with
              | nil => intro ks h k hk; simp at h; subst h; simp at hk
              | cons j js ih =>
                intro ks h k hk
                simp only [List.mapM_cons, Option.bind_eq_bind, Option.bind_eq_some_iff] at h
                obtain ⟨a, ha, rest, hrest, hks⟩ := h
                simp only [Option.pure_def, Option.some.injEq] at hks
                subst hks
                rcases List.mem_cons.mp hk with rfl | hk'
                · simp only [normIdx] at ha
                  split at ha
                  · simp only [Option.some.injEq] at ha; omega
                  · split at ha
                    · simp only [Option.some.injEq] at ha; omega
                    · simp at ha
                · exact ih rest hrest k hk'
            exact this is ps hp k hk
          | mask m =>
            simp only [positions] at hp
            split at hp
            · simp at hp
            · simp only [Option.some.injEq] at hp; subst hp
              exact List.mem_range.mp (List.mem_filter.mp hk).1
        rw [List.getElem?_eq_getElem hlt]; simp
    rw [key]
    -- value of p in the child: sliced cache entry if it was cached, recomputed from the sliced labels otherwise
    have hchild : readProp f c' p = labs.map (f p) := by
      have hc' : c'.labels = labs ∧ c'.cache = c.cache.filterMap fun (q, v) => (sel idx v).map fun v' => (q, v') := by
        by_cases hcond : (row.copied.contains "_extra_properties" || !row.initAttr.contains "_extra_properties") = true
        · simp only [hcond, if_true, Option.some.injEq, Prod.mk.injEq] at hg
          obtain ⟨rfl, _⟩ := hg; exact ⟨rfl, rfl⟩
        · simp only [hcond, if_false, Option.some.injEq, Prod.mk.injEq] at hg
          obtain ⟨rfl, _⟩ := hg; exact ⟨rfl, rfl⟩
      unfold readProp
      cases hf : c'.cache.find? (·.1 == p) with
      | none => simp only; rw [hc'.1]; rfl
      | some qv =>
        obtain ⟨q, v'⟩ := qv
        have hm := List.mem_of_find?_eq_some hf
        have hq : q = p := by simpa using List.find?_some hf
        rw [hc'.2, List.mem_filterMap] at hm
        obtain ⟨⟨q0, v0⟩, hm0, hsel⟩ := hm
        simp only [Option.map_eq_some_iff, Prod.mk.injEq] at hsel
        obtain ⟨w, hw, rfl, rfl⟩ := hsel
        simp only
        have hv0 := hcache q0 v0 hm0
        rw [hv0] at hw
        unfold compute at hw
        -- same computation as `key`, for property q0 = p
        subst hq
        have : sel idx (c.labels.map (f q0)) = some (labs.map (f q0)) := key
        rw [this] at hw
        exact (Option.some.inj hw).symm
    rw [hchild]

/-! ### independence of parent and slice -/

/-- TABLE OBLIGATION: `__getitem__` gives the slice its own `_extra_properties` list (for the tables
    regenerated from the source), so the slice's address differs from every existing heap cell -/
theorem getitem_fresh_extras {α : Type} [Inhabited α] (h : Heap) (c : Cat α) (idx : Index) (c' : Cat α) (h' : Heap)
    (hg : getitem rowSourceCatalog h c idx = some (c', h')) (hc : c.extras < h.length) :
    c'.extras = h.length ∧ h'.length = h.length + 1 ∧ h'.getD c.extras [] = h.getD c.extras [] ∧
    h'.getD c'.extras [] = h.getD c.extras [] := by
  unfold getitem at hg
  cases hs : sel idx c.labels with
  | none => rw [hs] at hg; simp at hg
  | some labs =>
    rw [hs] at hg
    have hcopied : (rowSourceCatalog.copied.contains "_extra_properties" ||
        !rowSourceCatalog.initAttr.contains "_extra_properties") = true := by decide
    simp only [hcopied, if_true, Option.some.injEq, Prod.mk.injEq] at hg
    obtain ⟨rfl, rfl⟩ := hg
    refine ⟨rfl, by simp, ?_, ?_⟩
    · rw [List.getD_eq_getElem?_getD, List.getD_eq_getElem?_getD, List.getElem?_append_left hc]
    · simp [List.getD_eq_getElem?_getD]

/-- MAIN (independence): adding or removing an extra property on the slice never changes the parent's list,
    and vice versa -/
theorem slice_extras_independent {α : Type} [Inhabited α] (h : Heap) (c : Cat α) (idx : Index) (c' : Cat α) (h' : Heap)
    (hg : getitem rowSourceCatalog h c idx = some (c', h')) (hc : c.extras < h.length) (name : String) :
    (addExtra h' c'.extras name).getD c.extras [] = h.getD c.extras [] ∧
    (removeExtra h' c'.extras name).getD c.extras [] = h.getD c.extras [] ∧
    (addExtra h' c.extras name).getD c'.extras [] = h.getD c.extras [] ∧
    (removeExtra h' c.extras name).getD c'.extras [] = h.getD c.extras [] := by
  obtain ⟨he, hl, hp, hch⟩ := getitem_fresh_extras h c idx c' h' hg hc
  have hne : c'.extras ≠ c.extras := by omega
  unfold addExtra removeExtra
  simp only [List.getD_eq_getElem?_getD] at *
  refine ⟨?_, ?_, ?_, ?_⟩
  · rw [List.getElem?_set_ne hne]; exact hp
  · rw [List.getElem?_set_ne hne]; exact hp
  · rw [List.getElem?_set_ne (Ne.symm hne)]; exact hch
  · rw [List.getElem?_set_ne (Ne.symm hne)]; exact hch

/-- no attribute that `__getitem__` copies by reference is modified in place by any method (both classes) -/
theorem no_shared_mutable_attribute :
    rowSourceCatalog.sharedMutated = [] ∧ rowApertureStats.sharedMutated = [] := by decide

-- non-vacuity: 4 sources, property 7 cached, negative integer index and a boolean mask
example : sel (Index.int (-1)) [10, 20, 30, 40] = some [40] := by decide
example : sel (Index.mask [true, false, true, false]) [10, 20, 30, 40] = some [10, 30] := by decide

/-! ### get_label / get_labels / get_id / get_ids -/

theorem labelPositions_nil (labels : List Nat) : labelPositions labels [] = some [] := rfl

theorem labelPositions_cons (labels : List Nat) (l : Nat) (ls : List Nat) :
    labelPositions labels (l :: ls)
      = if labels.contains l then (labelPositions labels ls).map (labels.idxOf l :: ·) else none := rfl

/-- a label that the catalogue does not hold is refused (defect F45: it used to select another source) -/
theorem labelPositions_absent (labels ls : List Nat) (l : Nat) (hl : l ∈ ls) (ha : l ∉ labels) :
    labelPositions labels ls = none := by
  induction ls with
  | nil => cases hl
  | cons x xs ih =>
    rw [labelPositions_cons]
    rcases List.mem_cons.mp hl with rfl | h
    · simp [ha]
    · split
      · rw [ih h]; rfl
      · rfl

/-- when it succeeds, the sources returned carry exactly the requested labels, in the requested order -/
theorem labelPositions_sound (labels ls ps : List Nat) (h : labelPositions labels ls = some ps) :
    ps.map (fun k => labels.getD k 0) = ls ∧ ∀ k ∈ ps, k < labels.length := by
  induction ls generalizing ps with
  | nil => rw [labelPositions_nil] at h; cases h; simp
  | cons x xs ih =>
    rw [labelPositions_cons] at h
    split at h
    · rename_i hc
      cases hr : labelPositions labels xs with
      | none => rw [hr] at h; simp at h
      | some qs =>
        rw [hr] at h; simp only [Option.map_some, Option.some.injEq] at h
        subst h
        obtain ⟨h1, h2⟩ := ih qs hr
        have hm : x ∈ labels := by simpa using hc
        have hlt : labels.idxOf x < labels.length := List.idxOf_lt_length_iff.mpr hm
        refine ⟨?_, ?_⟩
        · simp only [List.map_cons, h1, List.cons.injEq, and_true]
          rw [List.getD_eq_getElem?_getD, List.getElem?_eq_getElem hlt]
          simp
        · intro k hk
          rcases List.mem_cons.mp hk with rfl | hk
          · exact hlt
          · exact h2 k hk
    · cases h

theorem ints_positions (n : Nat) (ps : List Nat) (h : ∀ k ∈ ps, k < n) :
    (ps.map Int.ofNat).mapM (normIdx n) = some ps := by
  induction ps with
  | nil => rfl
  | cons k ks ih =>
    have hk : k < n := h k (List.mem_cons_self ..)
    have hn : normIdx n (Int.ofNat k) = some k := by
      unfold normIdx
      have : (0 : Int) ≤ Int.ofNat k ∧ Int.ofNat k < (n : Int) := ⟨Int.natCast_nonneg k, by simp; omega⟩
      rw [if_pos this]; rfl
    simp only [List.map_cons, List.mapM_cons, hn, ih (fun j hj => h j (List.mem_cons_of_mem _ hj))]
    rfl

/-- `get_labels` is the integer-list index form on those positions, so everything proved for `cat[idx]` (commutation with
    property evaluation, independence of the slice) applies to it -/
theorem labelPositions_is_ints (labels ls ps : List Nat) (h : labelPositions labels ls = some ps) :
    positions labels.length (.ints (ps.map Int.ofNat)) = some ps := by
  obtain ⟨_, hlt⟩ := labelPositions_sound labels ls ps h
  unfold positions
  exact ints_positions _ _ hlt

example : labelPositions [1, 2, 3, 10] [5] = none := by decide
example : labelPositions [1, 2, 3, 10] [10, 2] = some [3, 1] := by decide

end PhotVerif.C08
