/-
  C06 (and the label arithmetic behind C05): new labels never leave the range of the label array's dtype - the widening rule of
  `deblend_sources` (`_fit_label_dtype`, defect F43) makes room for the value and keeps every old value representable.
-/
import PhotVerif.Model.LabelDtype
namespace PhotVerif.C06
open PhotVerif.Model.LabelDtype

theorem minScalarType_holds (v : Nat) (d : IntDt) (h : minScalarType v = some d) : v ≤ d.max ∧ d.signed = false ∧ wellFormed d := by
  unfold minScalarType at h
  split at h
  · cases h; refine ⟨?_, rfl, Or.inl rfl⟩; simp [IntDt.max]; omega
  · split at h
    · cases h; refine ⟨?_, rfl, Or.inr (Or.inl rfl)⟩; simp [IntDt.max]; omega
    · split at h
      · cases h; refine ⟨?_, rfl, Or.inr (Or.inr (Or.inl rfl))⟩; simp [IntDt.max]; omega
      · split at h
        · cases h; refine ⟨?_, rfl, Or.inr (Or.inr (Or.inr rfl))⟩; simp [IntDt.max]; omega
        · cases h

/-- promotion never shrinks the representable range of either operand -/
theorem promote_max (a b c : IntDt) (ha : wellFormed a) (hb : wellFormed b) (h : promote a b = some c) :
    a.max ≤ c.max ∧ b.max ≤ c.max := by
  obtain ⟨sa, ba⟩ := a
  obtain ⟨sb, bb⟩ := b
  unfold wellFormed at ha hb
  simp only at ha hb
  rcases ha with rfl | rfl | rfl | rfl <;> rcases hb with rfl | rfl | rfl | rfl <;> cases sa <;> cases sb <;>
    simp [promote, IntDt.max] at h ⊢ <;> (try subst h) <;> simp

/-- MAIN: whenever the widening rule yields an integer dtype, the value fits in it and so does every value of the old dtype;
    and nothing changes when the value already fits -/
theorem fitDtype_holds (d : IntDt) (hd : wellFormed d) (v : Nat) (c : IntDt) (h : fitDtype d v = some c) :
    v ≤ c.max ∧ d.max ≤ c.max := by
  unfold fitDtype at h
  split at h
  · cases hm : minScalarType v with
    | none => rw [hm] at h; cases h
    | some m =>
      rw [hm] at h
      simp only [Option.bind_some] at h
      obtain ⟨hv, _, hw⟩ := minScalarType_holds v m hm
      obtain ⟨h1, h2⟩ := promote_max d m c hd hw h
      exact ⟨Nat.le_trans hv h2, h1⟩
  · cases h; rename_i hle; exact ⟨by omega, Nat.le_refl _⟩

theorem fitDtype_unchanged (d : IntDt) (v : Nat) (h : v ≤ d.max) : fitDtype d v = some d := by
  unfold fitDtype; rw [if_neg (by omega)]

-- the cases of defect F43: uint8 with label 256, int8 with 128, int32 with 2^31
example : fitDtype ⟨false, 8⟩ 256 = some ⟨false, 16⟩ := by decide
example : fitDtype ⟨true, 8⟩ 128 = some ⟨true, 16⟩ := by decide
example : fitDtype ⟨true, 32⟩ (2 ^ 31) = some ⟨true, 64⟩ := by decide
example : fitDtype ⟨true, 64⟩ (2 ^ 63) = none := by decide

end PhotVerif.C06
