/-
  C14 — peak and star finders return exactly what their contract selects.
-/
import PhotVerif.Model.Peaks
import Mathlib.Algebra.Order.Field.Rat
import Mathlib.Data.List.Basic
import Mathlib.Tactic.Linarith
import Mathlib.Tactic.Ring
import Mathlib.Tactic.Positivity
import PhotVerif.Gen.ForwardTable
import PhotVerif.Gen.FinderTable

namespace PhotVerif.C14
open PhotVerif.Model PhotVerif.Model.Peaks

/-! ### order on keys -/

theorem geK_iff (a b : Int × Rat) : geK a b = true ↔ (a.1 > b.1 ∨ (a.1 = b.1 ∧ a.2 ≥ b.2)) := by
  unfold geK; simp

theorem geK_trans (a b c : Int × Rat) (h1 : geK a b = true) (h2 : geK b c = true) : geK a c = true := by
  rw [geK_iff] at *
  rcases h1 with h1 | ⟨h1, h1'⟩ <;> rcases h2 with h2 | ⟨h2, h2'⟩
  · left; omega
  · left; omega
  · left; omega
  · right; exact ⟨by omega, le_trans h2' h1'⟩

theorem geK_total (a b : Int × Rat) : (geK a b || geK b a) = true := by
  rw [Bool.or_eq_true, geK_iff, geK_iff]
  rcases lt_trichotomy a.1 b.1 with h | h | h
  · right; left; exact h
  · rcases le_total a.2 b.2 with h' | h'
    · right; right; exact ⟨h.symm, h'⟩
    · left; right; exact ⟨h, h'⟩
  · left; left; exact h

/-! ### the selection predicate of find_peaks -/

/-- MAIN: a pixel is returned (before the npeaks cut) iff it is in the image, equals the maximum of its
    padded footprint neighbourhood, is unmasked, outside the border strips and strictly above the threshold -/
theorem mem_candidates_iff (c : Cfg) (d : Nat → Int × Rat) (cval : Int × Rat) (thr : Nat → Int × Rat)
    (mask : Nat → Bool) (p : Nat) :
    p ∈ candidates c d cval thr mask ↔
      p < c.ny * c.nx ∧ isNbhdMax c d cval p = true ∧ mask p = false ∧ inBorder c p = false ∧
      gtK (d p) (thr p) = true := by
  unfold candidates
  simp only [List.mem_filter, List.mem_range, Bool.and_eq_true, Bool.not_eq_true']
  tauto

/-- candidates come in raster order, each pixel once -/
theorem candidates_sorted (c : Cfg) (d : Nat → Int × Rat) (cval : Int × Rat) (thr : Nat → Int × Rat)
    (mask : Nat → Bool) : (candidates c d cval thr mask).Pairwise (· < ·) := by
  unfold candidates; exact List.pairwise_lt_range.filter _

/-- "equals the neighbourhood maximum" unfolded: ≥ every footprint value and attained -/
theorem isNbhdMax_iff (c : Cfg) (d : Nat → Int × Rat) (cval : Int × Rat) (p : Nat) :
    isNbhdMax c d cval p = true ↔
      (∀ o ∈ c.offsets, geK (d p) (padded c d cval (((p / c.nx : Nat) : Int) + o.1) (((p % c.nx : Nat) : Int) + o.2)) = true) ∧
      (∃ o ∈ c.offsets, padded c d cval (((p / c.nx : Nat) : Int) + o.1) (((p % c.nx : Nat) : Int) + o.2) = d p) := by
  unfold isNbhdMax
  simp only [Bool.and_eq_true, List.all_eq_true, List.any_eq_true, beq_iff_eq]

/-- with the padding value not above any pixel (cval = min of the data), pixels outside the image never
    decide: a pixel whose footprint contains itself is a peak candidate iff no IN-IMAGE footprint
    neighbour exceeds it — also for negative maxima on the image edge -/
theorem edge_peaks_with_min_padding (c : Cfg) (d : Nat → Int × Rat) (cval : Int × Rat) (p : Nat)
    (hp : p < c.ny * c.nx) (hself : ((0 : Int), (0 : Int)) ∈ c.offsets)
    (hcval : geK (d p) cval = true) :
    isNbhdMax c d cval p = true ↔
      ∀ o ∈ c.offsets, inImage c (((p / c.nx : Nat) : Int) + o.1) (((p % c.nx : Nat) : Int) + o.2) = true →
        geK (d p) (d ((((p / c.nx : Nat) : Int) + o.1).toNat * c.nx + (((p % c.nx : Nat) : Int) + o.2).toNat)) = true := by
  rw [isNbhdMax_iff]
  have hnx : 0 < c.nx := by
    rcases Nat.eq_zero_or_pos c.nx with h | h
    · rw [h] at hp; simp at hp
    · exact h
  have hy : p / c.nx < c.ny := Nat.div_lt_of_lt_mul (by rw [Nat.mul_comm]; exact hp)
  have hx : p % c.nx < c.nx := Nat.mod_lt _ hnx
  have hdm : p / c.nx * c.nx + p % c.nx = p := Nat.div_add_mod' p c.nx
  have hselfval : padded c d cval (((p / c.nx : Nat) : Int) + 0) (((p % c.nx : Nat) : Int) + 0) = d p := by
    unfold padded inImage
    generalize p / c.nx = qy at *
    generalize p % c.nx = qx at *
    have : (decide (0 ≤ ((qy : Nat) : Int) + 0 ∧ ((qy : Nat) : Int) + 0 < c.ny ∧
        0 ≤ ((qx : Nat) : Int) + 0 ∧ ((qx : Nat) : Int) + 0 < c.nx)) = true := by
      simp only [decide_eq_true_eq]; omega
    rw [if_pos this]
    simp only [Int.add_zero, Int.toNat_natCast]
    rw [hdm]
  constructor
  · rintro ⟨hall, _⟩ o ho hin
    have := hall o ho
    unfold padded at this
    rw [if_pos hin] at this
    exact this
  · intro h
    refine ⟨?_, ⟨(0, 0), hself, hselfval⟩⟩
    intro o ho
    unfold padded
    by_cases hin : inImage c (((p / c.nx : Nat) : Int) + o.1) (((p % c.nx : Nat) : Int) + o.2) = true
    · rw [if_pos hin]; exact h o ho hin
    · rw [if_neg hin]; exact hcval

/-- a zero border width excludes nothing -/
theorem border_zero_noop (c : Cfg) (h1 : c.borderY = 0) (h2 : c.borderX = 0) (p : Nat) : inBorder c p = false := by
  unfold inBorder; simp [h1, h2]

/-! ### keeping the N highest -/

theorem topN_sub {α : Type} (kf : α → Int × Rat) (n : Nat) (l : List α) : ∀ a ∈ topN kf n l, a ∈ l := by
  intro a ha
  unfold topN at ha
  exact List.mem_mergeSort.mp (List.mem_of_mem_take ha)

theorem topN_length {α : Type} (kf : α → Int × Rat) (n : Nat) (l : List α) : (topN kf n l).length = min n l.length := by
  unfold topN; simp

/-- every kept entry is at least as high as every dropped one, and the kept ones come in decreasing order -/
theorem topN_dominates {α : Type} (kf : α → Int × Rat) (n : Nat) (l : List α) :
    let s := l.mergeSort fun a b => geK (kf a) (kf b)
    (∀ a ∈ s.take n, ∀ b ∈ s.drop n, geK (kf a) (kf b) = true) ∧
    (topN kf n l).Pairwise (fun a b => geK (kf a) (kf b) = true) := by
  intro s
  have hs : s.Pairwise (fun a b => geK (kf a) (kf b) = true) :=
    List.pairwise_mergeSort (fun a b c => geK_trans (kf a) (kf b) (kf c)) (fun a b => geK_total (kf a) (kf b)) l
  constructor
  · intro a ha b hb
    have : (s.take n ++ s.drop n).Pairwise (fun a b => geK (kf a) (kf b) = true) := by
      rw [List.take_append_drop]; exact hs
    exact (List.pairwise_append.mp this).2.2 a ha b hb
  · unfold topN
    exact hs.sublist (List.take_sublist n s)

/-- `find_peaks` returns None iff there is no candidate -/
theorem findPeaks_none_iff (c : Cfg) (d : Nat → Int × Rat) (cval : Int × Rat) (thr : Nat → Int × Rat)
    (mask : Nat → Bool) (np : Option Nat) :
    findPeaks c d cval thr mask np = none ↔ candidates c d cval thr mask = [] := by
  unfold findPeaks
  simp only
  cases h : (candidates c d cval thr mask).isEmpty
  · simp only [Bool.false_eq_true, if_false]
    have hne : candidates c d cval thr mask ≠ [] := by
      intro e; rw [e] at h; simp at h
    constructor
    · intro hh
      cases np with
      | none => simp at hh
      | some n => simp only at hh; split at hh <;> simp at hh
    · intro hh; exact absurd hh hne
  · simp only [if_true, true_iff]
    exact List.isEmpty_iff.mp h

/-! ### star finders -/

/-- every returned source passed the finiteness and bounds filters, and every source that passes is
    returned when `brightest` is not set; None iff nothing passes; ids are positions 1..N of the output -/
theorem selectStars_spec (rows : List StarRow) :
    (selectStars rows none = none ↔ ∀ i, i < rows.length → passes rows i = false) ∧
    (∀ idx, selectStars rows none = some idx → ∀ i, i ∈ idx ↔ (i < rows.length ∧ passes rows i = true)) := by
  unfold selectStars
  simp only
  constructor
  · constructor
    · intro h i hi
      split at h
      · rename_i he
        have hnil := List.isEmpty_iff.mp he
        rw [List.filter_eq_nil_iff] at hnil
        simpa using hnil i (List.mem_range.mpr hi)
      · simp at h
    · intro h
      have : (List.range rows.length).filter (passes rows) = [] := by
        rw [List.filter_eq_nil_iff]
        intro i hi
        rw [h i (List.mem_range.mp hi)]; simp
      simp [this]
  · intro idx h i
    split at h
    · simp at h
    · simp only [Option.some.injEq] at h
      subst h
      simp only [List.mem_filter, List.mem_range]

theorem passes_iff (rows : List StarRow) (i : Nat) :
    passes rows i = true ↔ ∃ r, rows[i]? = some r ∧ r.finite = true ∧ r.inBounds = true := by
  unfold passes
  cases hr : rows[i]? with
  | none => simp
  | some r => simp

/-- `brightest = N` keeps N sources none of which is fainter than a discarded one -/
theorem brightest_keeps_largest (rows : List StarRow) (n : Nat) (idx : List Nat)
    (h : selectStars rows (some n) = some idx) : idx.length ≤ n := by
  unfold selectStars at h
  simp only at h
  split at h
  · simp at h
  · simp only [Option.some.injEq] at h
    rw [← h, topN_length]; exact Nat.min_le_left _ _

-- non-vacuity: 1×5 row with a negative maximum at the left edge, padded with the minimum (-3): it IS a candidate
example : candidates ⟨1, 5, [(0, -1), (0, 0), (0, 1)], 0, 0⟩
    (fun p => ((0 : Int), ([-1, -2, -3, 4, 2] : List Rat).getD p 0)) (0, -3) (fun _ => (0, -10)) (fun _ => false)
    = [0, 3] := by decide +kernel

/-! ### the min_separation neighbourhood of the star finders (defect F50: it was off-centre for non-integer separations) -/

/-- an integer whose square is at most sep² lies within ±floor(sep) -/
theorem int_le_floor_of_sq (sep : Rat) (hs : 0 ≤ sep) (d : Int) (h : ((d * d : Int) : Rat) ≤ sep * sep) :
    -sep.floor ≤ d ∧ d ≤ sep.floor := by
  have hd : (d : Rat) * (d : Rat) ≤ sep * sep := by simpa [Int.cast_mul] using h
  have up : ∀ e : Rat, e * e ≤ sep * sep → e ≤ sep := by
    intro e he
    by_contra hc
    rw [not_le] at hc
    nlinarith
  constructor
  · have : ((-d : Int) : Rat) ≤ sep := by
      push_cast
      exact up (-(d : Rat)) (by nlinarith)
    have := Rat.le_floor_iff.mpr this
    omega
  · exact Rat.le_floor_iff.mpr (up d hd)

theorem mem_sepOffsets (sep : Rat) (hs : 0 ≤ sep) (dy dx : Int) :
    (dy, dx) ∈ sepOffsets sep ↔ ((dy * dy + dx * dx : Int) : Rat) ≤ sep * sep := by
  unfold sepOffsets
  simp only [List.mem_filter, List.mem_flatMap, List.mem_map, List.mem_range, decide_eq_true_eq, Prod.mk.injEq]
  constructor
  · rintro ⟨_, h⟩; exact h
  · intro h
    refine ⟨?_, h⟩
    have hfl : (0 : Int) ≤ sep.floor := Rat.le_floor_iff.mpr (by simpa using hs)
    have hsq : ∀ a b : Int, ((a * a + b * b : Int) : Rat) ≤ sep * sep → ((a * a : Int) : Rat) ≤ sep * sep := by
      intro a b hab
      have : ((a * a : Int) : Rat) ≤ ((a * a + b * b : Int) : Rat) := by
        have : a * a ≤ a * a + b * b := by nlinarith [mul_self_nonneg b]
        exact_mod_cast this
      exact le_trans this hab
    obtain ⟨hy1, hy2⟩ := int_le_floor_of_sq sep hs dy (hsq dy dx h)
    obtain ⟨hx1, hx2⟩ := int_le_floor_of_sq sep hs dx (hsq dx dy (by rw [add_comm]; exact h))
    refine ⟨dy, ⟨(dy + sep.floor).toNat, ?_, ?_⟩, dx, ⟨(dx + sep.floor).toNat, ?_, ?_⟩, rfl, rfl⟩ <;> omega

/-- the neighbourhood is symmetric about the pixel (mirroring either axis, swapping the axes) -/
theorem sepOffsets_symmetric (sep : Rat) (hs : 0 ≤ sep) (dy dx : Int) :
    ((dy, dx) ∈ sepOffsets sep ↔ (-dy, dx) ∈ sepOffsets sep) ∧ ((dy, dx) ∈ sepOffsets sep ↔ (dy, -dx) ∈ sepOffsets sep) ∧
    ((dy, dx) ∈ sepOffsets sep ↔ (dx, dy) ∈ sepOffsets sep) := by
  simp only [mem_sepOffsets sep hs]
  refine ⟨?_, ?_, ?_⟩
  · rw [show -dy * -dy = dy * dy by ring]
  · rw [show -dx * -dx = dx * dx by ring]
  · rw [add_comm]

theorem sepOffsets_centre (sep : Rat) (hs : 0 ≤ sep) : (0, 0) ∈ sepOffsets sep := by
  rw [mem_sepOffsets sep hs]; simpa using mul_nonneg hs hs

-- non-vacuity / regression for F50: min_separation = 4.2 reaches 4 pixels to either side, not 5
example : ((0 : Int), (4 : Int)) ∈ sepOffsets (21 / 5) ∧ ((0 : Int), (-4 : Int)) ∈ sepOffsets (21 / 5) ∧
    ((0 : Int), (5 : Int)) ∉ sepOffsets (21 / 5) := by decide +kernel

/-! ### the separation `IRAFStarFinder` works with (option handling around `_find_stars`) -/

/-- a separation the caller gives is the separation in force - zero included (seed C14-r8 tested its truthiness) -/
theorem irafMinSep_given (s fwhm mf : Rat) (hs : 0 ≤ s) : irafMinSep (some s) fwhm mf = some s := by
  simp [irafMinSep, not_lt.mpr hs]

theorem irafMinSep_explicit_zero (fwhm mf : Rat) : irafMinSep (some 0) fwhm mf = some 0 :=
  irafMinSep_given 0 fwhm mf (le_refl 0)

/-- a negative separation is rejected -/
theorem irafMinSep_negative (s fwhm mf : Rat) (hs : s < 0) : irafMinSep (some s) fwhm mf = none := by
  simp [irafMinSep, hs]

/-- without one, the default is an integer of at least 2 pixels: the neighbourhood is then always a disk reaching at least two
    pixels to either side -/
theorem irafMinSep_default (fwhm mf : Rat) : ∃ n : Int, 2 ≤ n ∧ irafMinSep none fwhm mf = some (n : Rat) :=
  ⟨max 2 (fwhm * mf + 1 / 2).floor, le_max_left _ _, rfl⟩

/-- only a separation of exactly zero falls back to the kernel footprint; every positive one gives the centred disk -/
theorem neighbourhood_disk (sep : Rat) (h : 0 < sep) : neighbourhood sep = .disk (sepOffsets sep) := by
  simp [neighbourhood, ne_of_gt h]

theorem neighbourhood_zero : neighbourhood 0 = .kernelFootprint := by simp [neighbourhood]

-- non-vacuity: fwhm 2, minsep_fwhm 2.5 → 5; explicit 0 → kernel footprint
example : irafMinSep none 2 (5 / 2) = some 5 ∧ (irafMinSep (some 0) 2 (5 / 2)).map neighbourhood = some .kernelFootprint := by
  decide +kernel

/-! ### no delegating call in this property's modules drops an argument it holds (table regenerated from the source) -/

/-- TABLE OBLIGATION: see `Gen/ForwardTable.lean` - every delegating call in these modules passes on each value the caller holds
    under the callee's own parameter name (seed C14-r6 dropped `footprint` from the centroid refinement of `find_peaks`) -/
theorem no_dropped_arguments : Gen.ForwardTable.droppedIn Gen.ForwardTable.scopeC14 = [] := by decide

/-! ### "finite values": the finite-value filter covers every reported column (table regenerated from the three finder modules) -/

section finite
open Gen.FinderTable

/-- TABLE OBLIGATION (see `Gen/FinderTable.lean`): a reported column is covered when the finite-value filter tests it; when it is `id` or a pixel count; or when a tested attribute is
    that column divided by the (positive, finite) kernel FWHM.  `mag` is the one exception: known finding F40. -/
def columnCovered (finder : String) (tested : List String) (c : String) : Bool :=
  tested.contains c || c == "id" || c == "mag"
  || integerColumns.any (fun l => l.1 == finder && l.2.1 == c)
  || links.any (fun l => l.1 == finder && l.2.1 == c && tested.contains l.2.2.1 && l.2.2.2 == "self." ++ c ++ " / self.kernel.fwhm")

theorem finite_filter_covers_reported_columns :
    rows.all (fun r => r.2.1.all (columnCovered r.1 r.2.2)) = true := by decide

/-- the only attributes exempted from the finite-value test, and when -/
theorem finite_filter_exemptions :
    exemptions.all (fun e => e ∈ [("DAOStarFinder", "self.threshold_eff == 0 and attr == 'flux'"),
                                  ("DAOStarFinder", "self.threshold_eff <= 0 and attr == 'daofind_mag'")]) = true := by decide

/-- non-vacuity: the three finders are in the table, each with a non-empty filter -/
theorem finite_filter_table_nonempty :
    rows.map (·.1) = ["DAOStarFinder", "IRAFStarFinder", "StarFinder"] ∧ rows.all (fun r => !r.2.2.isEmpty) = true := by decide

/-- the pre-F76 table (daofind_mag reported, not tested) does not satisfy the obligation -/
example : ["id", "flux", "daofind_mag"].all (columnCovered "DAOStarFinder" ["flux"]) = false := by decide
end finite

end PhotVerif.C14
