/-
  C16 — ApertureStats values equal direct statistics of the aperture pixel set.
-/
import PhotVerif.Model.ApStats
import PhotVerif.Props.C02
import Mathlib.Algebra.Order.Field.Rat
import Mathlib.Algebra.BigOperators.Group.List.Basic
import Mathlib.Tactic.FieldSimp
import Mathlib.Tactic.Ring
import Mathlib.Tactic.Linarith
import PhotVerif.Gen.ForwardTable

namespace PhotVerif.C16
open PhotVerif PhotVerif.Gen PhotVerif.Model PhotVerif.Model.ApStats PhotVerif.C01 PhotVerif.C02

/-- the centre-method pixel multiset is exactly: pixels of the overlap whose centre is in the aperture
    (non-zero centre weight), unmasked, finite, not sigma-clipped — with the local background subtracted -/
theorem centreVals_spec (I : Inp) (ov : List (Int × Int × Int × Int)) (y x : Int) (v : Rat) :
    (y, x, v) ∈ centreVals I ov ↔
      ∃ j i q, (y, x, j, i) ∈ ov ∧ I.data y x = V.fin q ∧ v = q - I.lb ∧ I.wc j i ≠ 0 ∧
        I.mask y x = false ∧ I.clipC y x = false := by
  unfold centreVals
  simp only [List.mem_filterMap]
  constructor
  · rintro ⟨⟨y', x', j, i⟩, hm, h⟩
    simp only at h
    cases hd : I.data y' x' with
    | fin q =>
      rw [hd] at h
      simp only [fin?] at h
      split at h
      · rename_i hc
        simp only [Option.some.injEq, Prod.mk.injEq] at h
        obtain ⟨rfl, rfl, rfl⟩ := h
        exact ⟨j, i, q, hm, hd, rfl, hc.1, hc.2.1, hc.2.2⟩
      · simp at h
    | nan => rw [hd] at h; simp [fin?] at h
    | pinf => rw [hd] at h; simp [fin?] at h
    | ninf => rw [hd] at h; simp [fin?] at h
  · rintro ⟨j, i, q, hm, hd, rfl, h1, h2, h3⟩
    refine ⟨(y, x, j, i), hm, ?_⟩
    simp only [hd, fin?]
    rw [if_pos ⟨h1, h2, h3⟩]

/-- combined with the overlap geometry (C01/C02): the pixels are exactly those of box ∩ image -/
theorem overlap_pixels_spec (I : Inp) (ov : List (Int × Int × Int × Int)) (h : overlap I = .ok (some ov))
    (y x j i : Int) :
    (y, x, j, i) ∈ ov ↔ (inBox I.bbox y x ∧ inImg I.ny I.nx y x ∧ j = y - I.bbox.iymin ∧ i = x - I.bbox.ixmin) := by
  unfold overlap at h
  split at h
  · simp at h
  · simp at h
  · rename_i ly lx sy sx heq
    simp only [Except.ok.injEq, Option.some.injEq] at h
    subst h
    have hx := overlap_some_exact I.bbox I.ny I.nx (ly, lx) (sy, sx) heq y x
    have hr := overlap_small_rebased I.bbox I.ny I.nx (ly, lx) (sy, sx) heq
    unfold inSl at hx
    simp only at hx hr
    rw [mem_overlapPixels]
    constructor
    · rintro ⟨h1, h2, h3, h4, rfl, rfl⟩
      have := hx.1.mp ⟨h1, h2, h3, h4⟩
      exact ⟨this.1, this.2, by omega, by omega⟩
    · rintro ⟨hb, hi, rfl, rfl⟩
      have := hx.1.mpr ⟨hb, hi⟩
      exact ⟨this.1, this.2.1, this.2.2.1, this.2.2.2, by omega, by omega⟩

/-- no overlap ⇒ nothing is measured (all statistics NaN) -/
theorem no_overlap_iff (I : Inp) : overlap I = .ok none ↔ BBox.getOverlapSlices I.bbox (I.ny, I.nx) = .ok none := by
  unfold overlap; split <;> simp_all

theorem stats_none_iff (vs : List Rat) : stats vs = none ↔ vs = [] := by
  unfold stats; cases vs <;> simp

/-! ### the statistics are the direct statistics of the multiset -/

theorem sumQ_eq (l : List Rat) : sumQ l = l.sum := by unfold sumQ; rw [List.sum_eq_foldl]

theorem foldl_min_le (l : List Rat) : ∀ (a : Rat), l.foldl min a ≤ a ∧ ∀ v ∈ l, l.foldl min a ≤ v := by
  induction l with
  | nil => intro a; simp
  | cons b l ih =>
    intro a
    simp only [List.foldl_cons]
    obtain ⟨h1, h2⟩ := ih (min a b)
    refine ⟨le_trans h1 (min_le_left _ _), ?_⟩
    intro v hv
    rcases List.mem_cons.mp hv with rfl | hv
    · exact le_trans h1 (min_le_right _ _)
    · exact h2 v hv

theorem foldl_max_ge (l : List Rat) : ∀ (a : Rat), a ≤ l.foldl max a ∧ ∀ v ∈ l, v ≤ l.foldl max a := by
  induction l with
  | nil => intro a; simp
  | cons b l ih =>
    intro a
    simp only [List.foldl_cons]
    obtain ⟨h1, h2⟩ := ih (max a b)
    refine ⟨le_trans (le_max_left _ _) h1, ?_⟩
    intro v hv
    rcases List.mem_cons.mp hv with rfl | hv
    · exact le_trans (le_max_right _ _) h1
    · exact h2 v hv

/-- count, sum, mean, min, max of the returned statistics are those of the pixel multiset -/
theorem stats_spec (vs : List Rat) (s : Stats) (h : stats vs = some s) :
    s.n = vs.length ∧ s.sum = vs.sum ∧ s.mean * vs.length = vs.sum ∧
    (∀ v ∈ vs, s.min ≤ v ∧ v ≤ s.max) ∧ s.min ∈ vs ∧ s.max ∈ vs ∧ 0 ≤ s.var := by
  unfold stats at h
  cases vs with
  | nil => simp at h
  | cons v rest =>
    simp only [Option.some.injEq] at h
    subst h
    have hn : ((v :: rest).length : Rat) ≠ 0 := by
      simp only [List.length_cons, Nat.cast_add, Nat.cast_one]; positivity
    refine ⟨rfl, sumQ_eq _, by simp only; rw [sumQ_eq]; field_simp, ?_, ?_, ?_, ?_⟩
    · intro w hw
      simp only
      rcases List.mem_cons.mp hw with rfl | hw
      · exact ⟨(foldl_min_le rest w).1, (foldl_max_ge rest w).1⟩
      · exact ⟨(foldl_min_le rest v).2 w hw, (foldl_max_ge rest v).2 w hw⟩
    · simp only
      have : ∀ (l : List Rat) (a : Rat), l.foldl min a = a ∨ l.foldl min a ∈ l := by
        intro l
        induction l with
        | nil => intro a; left; rfl
        | cons b l ih =>
          intro a
          simp only [List.foldl_cons]
          rcases ih (min a b) with h | h
          · rcases min_choice a b with hm | hm
            · left; rw [h, hm]
            · right; rw [h, hm]; exact List.mem_cons_self
          · right; exact List.mem_cons_of_mem _ h
      rcases this rest v with h | h
      · rw [h]; exact List.mem_cons_self
      · exact List.mem_cons_of_mem _ h
    · simp only
      have : ∀ (l : List Rat) (a : Rat), l.foldl max a = a ∨ l.foldl max a ∈ l := by
        intro l
        induction l with
        | nil => intro a; left; rfl
        | cons b l ih =>
          intro a
          simp only [List.foldl_cons]
          rcases ih (max a b) with h | h
          · rcases max_choice a b with hm | hm
            · left; rw [h, hm]
            · right; rw [h, hm]; exact List.mem_cons_self
          · right; exact List.mem_cons_of_mem _ h
      rcases this rest v with h | h
      · rw [h]; exact List.mem_cons_self
      · exact List.mem_cons_of_mem _ h
    · simp only
      apply div_nonneg
      · rw [sumQ_eq]
        have : ∀ (l : List Rat) (m : Rat), 0 ≤ (l.map fun x => (x - m) * (x - m)).sum := by
          intro l m
          induction l with
          | nil => simp
          | cons a l ih => simp only [List.map_cons, List.sum_cons]; have := mul_self_nonneg (a - m); linarith
        exact this _ _
      · positivity

/-! ### centroid: measured in the clipped cut-out, re-based by the START OF THE OVERLAP SLICES -/

/-- computing the centre of mass in cut-out coordinates (x − sx, y − sy) and adding the cut-out origin (sx, sy)
    gives the centre of mass in image coordinates — provided the origin added is the origin of the cut-out that was
    actually used (the start of the overlap slices), whatever the aperture's bounding box is -/
theorem centroid_rebase (cv : List (Int × Int × Rat)) (sx sy : Int) (I : Inp) (c : Rat × Rat)
    (h : centroid I cv = some c) :
    let m00 := sumQ (cv.map fun t => t.2.2)
    c.1 = sumQ (cv.map fun t => ((t.2.1 - sx : Int) : Rat) * t.2.2) / m00 + sx ∧
    c.2 = sumQ (cv.map fun t => ((t.1 - sy : Int) : Rat) * t.2.2) / m00 + sy := by
  intro m00
  unfold centroid at h
  simp only at h
  split at h
  · simp at h
  · rename_i hm
    simp only [Option.some.injEq] at h
    subst h
    have key : ∀ (l : List (Int × Int × Rat)) (g : Int × Int × Rat → Int) (s : Int),
        sumQ (l.map fun t => ((g t - s : Int) : Rat) * t.2.2)
          = sumQ (l.map fun t => (g t : Rat) * t.2.2) - s * sumQ (l.map fun t => t.2.2) := by
      intro l g s
      simp only [sumQ_eq]
      induction l with
      | nil => simp
      | cons t l ih => simp only [List.map_cons, List.sum_cons]; rw [ih]; push_cast; ring
    have hm' : m00 ≠ 0 := hm
    have hm0 : sumQ (cv.map fun t => t.2.2) = m00 := rfl
    constructor
    · simp only
      rw [key cv (fun t => t.2.1) sx, hm0]
      field_simp
      ring
    · simp only
      rw [key cv (fun t => t.1) sy, hm0]
      field_simp
      ring

-- non-vacuity: three pixel values 4, 1, 7
example : (stats [4, 1, 7]).map (·.sum) = some 12 ∧ (stats [4, 1, 7]).map (·.min) = some 1 ∧
    (stats [4, 1, 7]).map (·.max) = some 7 ∧ (stats [4, 1, 7]).map (·.n) = some 3 := by decide +kernel

/-! ### no delegating call in this property's modules drops an argument it holds (table regenerated from the source) -/

/-- TABLE OBLIGATION: in the modules of this property, every call that delegates to another photutils function, method or
    constructor passes on each value the caller holds under the callee's own parameter name (its own parameters, `self.<name>`
    attributes set in `__init__`) - dropped `subpixels`, `mask`, `connectivity`, `include_localbkg` ... keywords were a recurring
    kind of seeded change -/
theorem no_dropped_arguments : Gen.ForwardTable.droppedIn Gen.ForwardTable.scopeC16 =
    -- the one intended exception: the 'center' masks are built with method='center', which ignores `subpixels`
    [("aperture/stats.py", "ApertureStats._aperture_masks_center", "to_mask", "subpixels")] := by decide

end PhotVerif.C16
