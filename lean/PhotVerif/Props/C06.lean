/-
  C06 — deblending only refines segments and is independent of worker scheduling.
  The per-source deblender is a parameter `D` constrained by the contract the code itself
  enforces (footprint guard, children numbered 1..k).
-/
import PhotVerif.Model.Deblend
import PhotVerif.Props.C05
import Mathlib.Data.List.Perm.Basic
import Mathlib.Tactic.Linarith
import Mathlib.Tactic.IntervalCases

namespace PhotVerif.C06
open PhotVerif.Model.Segm PhotVerif.Model.Deblend PhotVerif.C05

/-! ### schedule independence -/

theorem getElem?_fill (vals : Nat → Option Child) (order : List Nat) :
    ∀ (acc : List (Option (Option Child))) (i : Nat), i < acc.length →
      (order.foldl (fun res idx => res.set idx (some (vals idx))) acc)[i]? =
        if i ∈ order then some (some (vals i)) else acc[i]? := by
  induction order with
  | nil => intro acc i _; simp
  | cons a order ih =>
    intro acc i hi
    simp only [List.foldl_cons]
    rw [ih (acc.set a (some (vals a))) i (by simpa using hi)]
    by_cases hmem : i ∈ order
    · simp [hmem]
    · simp only [hmem, if_false, List.mem_cons, or_false]
      by_cases hia : i = a
      · subst hia; simp [hi]
      · simp [hia, List.getElem?_set_ne (Ne.symm hia)]

theorem fill_length (vals : Nat → Option Child) (order : List Nat) :
    ∀ (acc : List (Option (Option Child))),
      (order.foldl (fun res idx => res.set idx (some (vals idx))) acc).length = acc.length := by
  induction order with
  | nil => intro acc; rfl
  | cons a order ih => intro acc; simp only [List.foldl_cons]; rw [ih]; simp

/-- whatever order the futures complete in (every task completes at least once), the `results`
    array is the per-index result list -/
theorem fillResults_any_order (m : Nat) (order : List Nat) (vals : Nat → Option Child)
    (hall : ∀ i, i < m → i ∈ order) :
    fillResults m order vals = (List.range m).map fun i => some (vals i) := by
  unfold fillResults
  apply List.ext_getElem?
  intro i
  by_cases hi : i < m
  · rw [getElem?_fill vals order _ i (by simpa using hi)]
    simp [hall i hi, hi]
  · have h1 : (order.foldl (fun res idx => res.set idx (some (vals idx))) (List.replicate m none)).length = m := by
      rw [fill_length]; simp
    rw [List.getElem?_eq_none (by omega), List.getElem?_eq_none (by simp; omega)]

/-- MAIN (schedules): for every completion order the parallel branch computes exactly what the
    serial branch computes -/
theorem parallel_eq_serial (n : Nat) (seg : Nat → Nat) (labels : List Nat) (D : Nat → Option Child)
    (order : List Nat) (hall : ∀ i, i < labels.length → i ∈ order) :
    parallel n seg labels D order = serial n seg labels D := by
  unfold parallel serial
  rw [fillResults_any_order _ _ _ hall]
  simp only
  congr 1
  apply List.ext_getElem
  · simp
  · intro i h1 h2
    simp only [List.length_zip, List.length_map, List.length_range, Nat.min_self] at h1
    simp [List.getElem_zip, List.getD_eq_getElem?_getD, h1]

theorem parallel_order_irrelevant (n : Nat) (seg : Nat → Nat) (labels : List Nat) (D : Nat → Option Child)
    (o1 o2 : List Nat) (h1 : o1.Perm (List.range labels.length)) (h2 : o2.Perm (List.range labels.length)) :
    parallel n seg labels D o1 = parallel n seg labels D o2 := by
  rw [parallel_eq_serial n seg labels D o1 (fun i hi => h1.mem_iff.mpr (List.mem_range.mpr hi)),
      parallel_eq_serial n seg labels D o2 (fun i hi => h2.mem_iff.mpr (List.mem_range.mpr hi))]

/-! ### the merge only refines segments -/

theorem tab_eq (n : Nat) (f : Nat → Nat) (p : Nat) (hp : p < n) : (tabA n f).getD p 0 = f p := by
  unfold tabA; exact getD_map_range n f p hp

theorem mergeOne_some_segm (n : Nat) (st : MState) (l : Nat) (c : Child) (p : Nat) (hp : p < n) :
    (mergeOne n st l (some c)).segm p = if c p > 0 then c p + st.maxLabel else st.segm p :=
  tab_eq n _ p hp

theorem mergeOne_some_max (n : Nat) (st : MState) (l : Nat) (c : Child) :
    (mergeOne n st l (some c)).maxLabel = st.maxLabel + (dLabels n c).length := by
  simp [mergeOne]

theorem mergeOne_some_dmap (n : Nat) (st : MState) (l : Nat) (c : Child) :
    (mergeOne n st l (some c)).dmap = st.dmap ++ [(l, (dLabels n c).map (· + st.maxLabel))] := rfl

/-- what the code enforces / assumes about one per-source result for parent `l`:
    the children occupy exactly the parent's pixels (footprint guard) and are numbered 1..k -/
structure ChildOK (n : Nat) (seg : Nat → Nat) (l : Nat) (c : Child) : Prop where
  footprint : ∀ p, p < n → (0 < c p ↔ seg p = l)
  numbered : ∀ p, p < n → c p ≤ (dLabels n c).length

def WorkOK (n : Nat) (seg : Nat → Nat) (work : List (Nat × Option Child)) : Prop :=
  (work.map Prod.fst).Nodup ∧ ∀ lr ∈ work, lr.1 ≠ 0 ∧ ∀ c, lr.2 = some c → ChildOK n seg lr.1 c

/-- invariant of the merge loop after the prefix `done` of the work list -/
structure J (n : Nat) (seg : Nat → Nat) (M0 : Nat) (done : List (Nat × Option Child)) (st : MState) : Prop where
  nonzero : ∀ p, p < n → (st.segm p ≠ 0 ↔ seg p ≠ 0)
  untouched : ∀ p, p < n → (∀ lr ∈ done, lr.2 = none ∨ lr.1 ≠ seg p) → st.segm p = seg p
  bound : ∀ p, p < n → st.segm p ≤ st.maxLabel
  mono : M0 ≤ st.maxLabel
  fresh : ∀ p, p < n → (∃ lr ∈ done, lr.1 = seg p ∧ lr.2 ≠ none) → M0 < st.segm p
  refines : ∀ p q, p < n → q < n → st.segm p = st.segm q → seg p = seg q
  dmapKeys : ∀ pc ∈ st.dmap, ∃ lr ∈ done, lr.1 = pc.1 ∧ lr.2 ≠ none
  dmapPix : ∀ pc ∈ st.dmap, ∀ x, x ∈ pc.2 ↔ ∃ p, p < n ∧ seg p = pc.1 ∧ st.segm p = x

theorem J_step (n : Nat) (seg : Nat → Nat) (M0 : Nat) (hM0 : ∀ p, p < n → seg p ≤ M0)
    (done : List (Nat × Option Child)) (st : MState) (h : J n seg M0 done st)
    (l : Nat) (r : Option Child) (hl0 : l ≠ 0) (hnew : ∀ lr ∈ done, lr.1 ≠ l)
    (hc : ∀ c, r = some c → ChildOK n seg l c) :
    J n seg M0 (done ++ [(l, r)]) (mergeOne n st l r) := by
  cases r with
  | none =>
    simp only [mergeOne]
    refine ⟨h.nonzero, ?_, h.bound, h.mono, ?_, h.refines, ?_, h.dmapPix⟩
    · intro p hp hall
      exact h.untouched p hp (fun lr hlr => hall lr (List.mem_append_left _ hlr))
    · rintro p hp ⟨lr, hlr, h1, h2⟩
      rcases List.mem_append.mp hlr with hd | hd
      · exact h.fresh p hp ⟨lr, hd, h1, h2⟩
      · simp only [List.mem_singleton] at hd; subst hd; exact absurd rfl h2
    · intro pc hpc
      obtain ⟨lr, hlr, h1, h2⟩ := h.dmapKeys pc hpc
      exact ⟨lr, List.mem_append_left _ hlr, h1, h2⟩
  | some c =>
    have hck := hc c rfl
    have hseg := fun p hp => mergeOne_some_segm n st l c p hp
    have hmax := mergeOne_some_max n st l c
    have hdm := mergeOne_some_dmap n st l c
    refine ⟨?_, ?_, ?_, ?_, ?_, ?_, ?_, ?_⟩
    · intro p hp
      rw [hseg p hp]
      by_cases hcp : c p > 0
      · rw [if_pos hcp]
        have := (hck.footprint p hp).mp hcp
        constructor
        · intro _; rw [this]; exact hl0
        · intro _; omega
      · rw [if_neg hcp]; exact h.nonzero p hp
    · intro p hp hall
      rw [hseg p hp]
      have hne : seg p ≠ l := by
        rcases hall (l, some c) (by simp) with h1 | h1
        · simp at h1
        · exact fun e => h1 e.symm
      have hcp : ¬ c p > 0 := fun hcp => hne ((hck.footprint p hp).mp hcp)
      rw [if_neg hcp]
      exact h.untouched p hp (fun lr hlr => hall lr (List.mem_append_left _ hlr))
    · intro p hp
      rw [hseg p hp, hmax]
      by_cases hcp : c p > 0
      · rw [if_pos hcp]; have := hck.numbered p hp; omega
      · rw [if_neg hcp]; have := h.bound p hp; omega
    · have := h.mono; rw [hmax]; omega
    · rintro p hp ⟨lr, hlr, h1, h2⟩
      rw [hseg p hp]
      by_cases hcp : c p > 0
      · rw [if_pos hcp]; have := h.mono; omega
      · rw [if_neg hcp]
        rcases List.mem_append.mp hlr with hd | hd
        · exact h.fresh p hp ⟨lr, hd, h1, h2⟩
        · simp only [List.mem_singleton] at hd; subst hd
          exact absurd ((hck.footprint p hp).mpr h1.symm) hcp
    · intro p q hp hq
      rw [hseg p hp, hseg q hq]
      by_cases hcp : c p > 0 <;> by_cases hcq : c q > 0
      · rw [if_pos hcp, if_pos hcq]; intro _
        rw [(hck.footprint p hp).mp hcp, (hck.footprint q hq).mp hcq]
      · rw [if_pos hcp, if_neg hcq]; intro e
        have := h.bound q hq; omega
      · rw [if_neg hcp, if_pos hcq]; intro e
        have := h.bound p hp; omega
      · rw [if_neg hcp, if_neg hcq]; exact h.refines p q hp hq
    · intro pc hpc
      rw [hdm] at hpc
      rcases List.mem_append.mp hpc with hd | hd
      · obtain ⟨lr, hlr, h1, h2⟩ := h.dmapKeys pc hd
        exact ⟨lr, List.mem_append_left _ hlr, h1, h2⟩
      · simp only [List.mem_singleton] at hd; subst hd
        exact ⟨(l, some c), by simp, rfl, by simp⟩
    · intro pc hpc x
      rw [hdm] at hpc
      rcases List.mem_append.mp hpc with hd | hd
      · -- an earlier parent: its pixels are not touched by this step
        obtain ⟨lr, hlr, h1, _⟩ := h.dmapKeys pc hd
        have hne : pc.1 ≠ l := by rw [← h1]; exact hnew lr hlr
        rw [h.dmapPix pc hd x]
        constructor
        · rintro ⟨p, hp, hs, hx⟩
          refine ⟨p, hp, hs, ?_⟩
          rw [hseg p hp]
          have hcp : ¬ c p > 0 := fun hcp => hne (hs ▸ (hck.footprint p hp).mp hcp)
          rw [if_neg hcp]; exact hx
        · rintro ⟨p, hp, hs, hx⟩
          refine ⟨p, hp, hs, ?_⟩
          rw [hseg p hp] at hx
          have hcp : ¬ c p > 0 := fun hcp => hne (hs ▸ (hck.footprint p hp).mp hcp)
          rw [if_neg hcp] at hx; exact hx
      · simp only [List.mem_singleton] at hd; subst hd
        simp only [List.mem_map]
        constructor
        · rintro ⟨y, hy, rfl⟩
          obtain ⟨hy0, p, hp, hcp⟩ := (mem_dLabels n c y).mp hy
          have hpos : c p > 0 := by omega
          refine ⟨p, hp, (hck.footprint p hp).mp hpos, ?_⟩
          rw [hseg p hp, if_pos hpos, hcp]
        · rintro ⟨p, hp, hs, hx⟩
          have hpos : c p > 0 := (hck.footprint p hp).mpr hs
          rw [hseg p hp, if_pos hpos] at hx
          exact ⟨c p, (mem_dLabels n c _).mpr ⟨by omega, p, hp, rfl⟩, hx⟩

theorem le_foldl_max (l : List Nat) (x : Nat) (hx : x ∈ l) : x ≤ l.foldl max 0 :=
  foldl_max_mem l id 0 x hx

theorem seg_le_M0 (n : Nat) (seg : Nat → Nat) (p : Nat) (hp : p < n) :
    seg p ≤ (dLabels n seg).foldl max 0 := by
  by_cases h0 : seg p = 0
  · omega
  · exact le_foldl_max _ _ ((mem_dLabels n seg _).mpr ⟨h0, p, hp, rfl⟩)

theorem initState_segm (n : Nat) (seg : Nat → Nat) (p : Nat) (hp : p < n) : (initState n seg).segm p = seg p :=
  tab_eq n seg p hp

theorem J_init (n : Nat) (seg : Nat → Nat) :
    J n seg ((dLabels n seg).foldl max 0) [] (initState n seg) := by
  refine ⟨fun p hp => by rw [initState_segm n seg p hp], fun p hp _ => initState_segm n seg p hp,
    fun p hp => by rw [initState_segm n seg p hp]; exact seg_le_M0 n seg p hp, Nat.le_refl _,
    ?_, fun p q hp hq h => by rw [initState_segm n seg p hp, initState_segm n seg q hq] at h; exact h, ?_, ?_⟩
  · rintro p _ ⟨lr, hlr, _⟩; simp at hlr
  · intro pc hpc; simp [initState] at hpc
  · intro pc hpc; simp [initState] at hpc

theorem J_fold (n : Nat) (seg : Nat → Nat) (M0 : Nat) (hM0 : ∀ p, p < n → seg p ≤ M0) :
    ∀ (rest done : List (Nat × Option Child)) (st : MState), J n seg M0 done st →
      WorkOK n seg (done ++ rest) →
      J n seg M0 (done ++ rest) (rest.foldl (fun st lr => mergeOne n st lr.1 lr.2) st) := by
  intro rest
  induction rest with
  | nil => intro done st h _; simpa using h
  | cons lr rest ih =>
    intro done st h hw
    simp only [List.foldl_cons]
    have hw' : WorkOK n seg ((done ++ [lr]) ++ rest) := by simpa using hw
    have hmem : lr ∈ done ++ lr :: rest := by simp
    have hnew : ∀ x ∈ done, x.1 ≠ lr.1 := by
      intro x hx e
      have hnd := hw.1
      rw [List.map_append, List.map_cons] at hnd
      have := (List.nodup_append.mp hnd).2.2 x.1 (List.mem_map_of_mem hx) lr.1 (by simp)
      exact this e
    have := J_step n seg M0 hM0 done st h lr.1 lr.2 (hw.2 lr hmem).1 hnew (hw.2 lr hmem).2
    have e : (done ++ [lr]) ++ rest = done ++ lr :: rest := by simp
    rw [← e]
    exact ih (done ++ [lr]) _ this hw'

/-- MAIN (refinement): for every work list satisfying the per-source contract, the merged array
    (i) has the same non-zero pixels, (ii) equals the input on every pixel whose segment was not split,
    (iii) puts every output segment inside one input segment, (iv) gives children labels above every
    original label, and (v) records for each split parent exactly the labels found on its pixels. -/
theorem merge_refines (n : Nat) (seg : Nat → Nat) (work : List (Nat × Option Child))
    (hw : WorkOK n seg work) :
    let out := merge n seg work
    let M0 := (dLabels n seg).foldl max 0
    (∀ p, p < n → (out.segm p ≠ 0 ↔ seg p ≠ 0)) ∧
    (∀ p, p < n → (∀ lr ∈ work, lr.2 = none ∨ lr.1 ≠ seg p) → out.segm p = seg p) ∧
    (∀ p q, p < n → q < n → out.segm p = out.segm q → seg p = seg q) ∧
    (∀ p, p < n → (∃ lr ∈ work, lr.1 = seg p ∧ lr.2 ≠ none) → M0 < out.segm p) ∧
    (∀ pc ∈ out.dmap, (∃ lr ∈ work, lr.1 = pc.1 ∧ lr.2 ≠ none) ∧
        ∀ x, x ∈ pc.2 ↔ ∃ p, p < n ∧ seg p = pc.1 ∧ out.segm p = x) := by
  intro out M0
  have h := J_fold n seg M0 (seg_le_M0 n seg) work [] (initState n seg) (J_init n seg) (by simpa using hw)
  simp only [List.nil_append] at h
  exact ⟨h.nonzero, h.untouched, h.refines, h.fresh, fun pc hpc => ⟨h.dmapKeys pc hpc, h.dmapPix pc hpc⟩⟩

/-- with relabel=True the final labels are exactly 1..N -/
theorem finalize_labels_1N (n : Nat) (st : MState) :
    dLabels n (fun p => (finalize n st true).1.getD p 0)
      = (List.range (dLabels n st.segm).length).map (1 + ·) := by
  unfold finalize
  simp only [if_true]
  rw [dLabels_congr n _ (fun p => rankMap (dLabels n st.segm) 1 (st.segm p)) (fun p hp => tab_eq n _ p hp)]
  exact relabel_labels n st.segm 1 (by omega)

/-- relabel=False leaves array and map as merged -/
theorem finalize_false (n : Nat) (st : MState) : finalize n st false = (st.segmA, st.dmap) := rfl

-- non-vacuity: two parents (labels 1 and 3) on 6 pixels, both split in two
example : WorkOK 6 (fun p => [1, 1, 0, 3, 3, 3].getD p 0)
    [(1, some (fun p => [1, 2, 0, 0, 0, 0].getD p 0)), (3, some (fun p => [0, 0, 0, 1, 2, 2].getD p 0))] := by
  refine ⟨by decide, ?_⟩
  intro lr hlr
  simp only [List.mem_cons, List.not_mem_nil, or_false] at hlr
  rcases hlr with rfl | rfl
  · refine ⟨by decide, fun c hc => ?_⟩
    simp only [Option.some.injEq] at hc; subst hc
    constructor <;> intro p hp <;> interval_cases p <;> decide
  · refine ⟨by decide, fun c hc => ?_⟩
    simp only [Option.some.injEq] at hc; subst hc
    constructor <;> intro p hp <;> interval_cases p <;> decide

end PhotVerif.C06
