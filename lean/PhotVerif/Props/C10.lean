/-
  C10 — soundness of the may-alias analysis: a function whose effect program is accepted (`safe`) never writes
  to a buffer the caller supplied, on any execution path, for any number of loop iterations.
  The effect programs are regenerated from the Python source on every run (Gen/EffectsTable.lean) and
  `safe` is evaluated on each of them by the kernel (`all_extracted_safe`).
-/
import PhotVerif.Model.Effects
import Mathlib.Data.List.Basic
import Mathlib.Tactic.Linarith
import Mathlib.Tactic.Tauto

namespace PhotVerif.C10
open PhotVerif.Model.Effects

/-! ### abstract-state lemmas -/

theorem get_map_range (n : Nat) (f : Nat → List Nat) (v : Nat) :
    ((List.range n).map f).getD v [] = if v < n then f v else [] := by
  by_cases h : v < n
  · simp [List.getD_eq_getElem?_getD, h]
  · simp [List.getD_eq_getElem?_getD, h]

theorem get_nil_of_ge (a : AState) (v : Var) (h : a.length ≤ v) : a.get v = [] := by
  unfold AState.get
  rw [List.getD_eq_getElem?_getD, List.getElem?_eq_none h]; rfl

theorem get_set (a : AState) (d v : Var) (l : List Nat) : (a.set d l).get v = if v = d then l else a.get v := by
  unfold AState.set
  by_cases hd : d < a.length
  · rw [if_pos hd]
    unfold AState.get
    by_cases hv : v = d
    · subst hv; simp [List.getD_eq_getElem?_getD, hd]
    · rw [if_neg hv]
      simp only [List.getD_eq_getElem?_getD]
      rw [List.getElem?_set_ne (Ne.symm hv)]
  · rw [if_neg hd]
    show ((List.range (d + 1)).map _).getD v [] = _
    rw [get_map_range]
    by_cases hv : v < d + 1
    · rw [if_pos hv]
    · rw [if_neg hv]
      have h1 : a.length ≤ v := by
        have : a.length ≤ d := Nat.le_of_not_lt hd
        exact Nat.le_trans this (Nat.le_of_lt_succ (Nat.lt_succ_of_le (Nat.le_of_succ_le (Nat.le_of_not_lt hv))))
      have h2 : v ≠ d := fun h => hv (h ▸ Nat.lt_succ_self d)
      rw [if_neg h2, get_nil_of_ge a v h1]

theorem mem_union (x y : List Nat) (b : Nat) : b ∈ union x y ↔ b ∈ x ∨ b ∈ y := by
  unfold union
  simp only [List.mem_append, List.mem_filter, Bool.not_eq_true', List.contains_eq_mem, decide_eq_false_iff_not]
  tauto

theorem get_cons_zero (x : List Nat) (a : AState) : AState.get (x :: a) 0 = x := rfl
theorem get_cons_succ (x : List Nat) (a : AState) (v : Nat) : AState.get (x :: a) (v + 1) = AState.get a v := rfl
theorem get_nil (v : Nat) : AState.get [] v = [] := rfl

theorem union_nil_left (y : List Nat) (b : Nat) : b ∈ union [] y ↔ b ∈ y := by rw [mem_union]; simp
theorem union_nil_right (x : List Nat) : union x [] = x := by simp [union]

/-- membership form (the list representation of a join is not canonical) -/
theorem mem_get_join (a b : AState) (v : Var) (x : Nat) : x ∈ (join a b).get v ↔ x ∈ a.get v ∨ x ∈ b.get v := by
  induction a generalizing b v with
  | nil => simp [join, get_nil]
  | cons p a ih =>
    cases b with
    | nil => simp [join, get_nil]
    | cons q b =>
      cases v with
      | zero => simp only [join, get_cons_zero, mem_union]
      | succ v => simp only [join, get_cons_succ]; exact ih b v

theorem le_spec (a b : AState) (h : a.le b = true) (v : Var) (x : Nat) (hx : x ∈ a.get v) : x ∈ b.get v := by
  induction a generalizing b v with
  | nil => rw [get_nil] at hx; cases hx
  | cons p a ih =>
    cases b with
    | nil =>
      simp only [AState.le, Bool.and_eq_true, List.isEmpty_iff] at h
      cases v with
      | zero => rw [get_cons_zero, h.1] at hx; cases hx
      | succ v => rw [get_cons_succ] at hx; exact absurd (ih [] h.2 v hx) (by rw [get_nil]; simp)
    | cons q b =>
      simp only [AState.le, Bool.and_eq_true] at h
      cases v with
      | zero =>
        rw [get_cons_zero] at hx ⊢
        have := h.1
        unfold subset at this
        rw [List.all_eq_true] at this
        simpa using this x hx
      | succ v => rw [get_cons_succ] at hx ⊢; exact ih b h.2 v hx

theorem le_iterJoin (f : AState → AState) (n : Nat) (a : AState) (v : Var) (x : Nat) (hx : x ∈ a.get v) :
    x ∈ (iterJoin f n a).get v := by
  induction n generalizing a with
  | zero => exact hx
  | succ n ih =>
    unfold iterJoin
    simp only
    split
    · exact hx
    · apply ih
      rw [mem_get_join]
      exact Or.inl hx

/-! ### soundness -/

/-- the abstract state over-approximates which input buffers each variable points to -/
def Sound (k : Nat) (A : AState) (s : CState) : Prop := ∀ v b, s.env v = some b → b < k → b ∈ A.get v

/-- no input buffer is written between s and s' -/
def NoNewInputWrite (k : Nat) (s s' : CState) : Prop := ∀ b ∈ s'.written, b < k → b ∈ s.written

theorem sound_mono (k : Nat) (A B : AState) (s : CState) (h : Sound k A s) (hle : ∀ v x, x ∈ A.get v → x ∈ B.get v) :
    Sound k B s := fun v b hv hb => hle v b (h v b hv hb)

/-- loop lemma: at a checked post-fixpoint the invariant survives any number of iterations -/
theorem loop_sound (k : Nat) (body : Stmt) (Af A' : AState)
    (hbody : ∀ s s', Exec body s s' → Sound k Af s → k ≤ s.next →
        k ≤ s'.next ∧ Sound k A' s' ∧ NoNewInputWrite k s s')
    (hle : ∀ v x, x ∈ A'.get v → x ∈ Af.get v)
    (s s' : CState) (h : Exec (.loop body) s s') (hs : Sound k Af s) (hn : k ≤ s.next) :
    k ≤ s'.next ∧ Sound k Af s' ∧ NoNewInputWrite k s s' := by
  generalize hq : Stmt.loop body = q at h
  induction h with
  | loopDone b s0 => exact ⟨hn, hs, fun b hb _ => hb⟩
  | loopStep h1 h2 _ ih2 =>
    cases hq
    obtain ⟨a2, a1, a3⟩ := hbody _ _ h1 hs hn
    obtain ⟨b2, b1, b3⟩ := ih2 (sound_mono k _ _ _ a1 hle) a2 rfl
    exact ⟨b2, b1, fun b hb hk => a3 b (b3 b hb hk) hk⟩
  | _ => cases hq

theorem next_mono (p : Stmt) : ∀ (s s' : CState), Exec p s s' → s.next ≤ s'.next := by
  intro s s' h
  induction h with
  | skip => exact Nat.le_refl _
  | assign => exact Nat.le_refl _
  | fresh => simp [CState.set]
  | write => exact Nat.le_refl _
  | seq _ _ i1 i2 => exact Nat.le_trans i1 i2
  | iteL _ i => exact i
  | iteR _ i => exact i
  | loopDone => exact Nat.le_refl _
  | loopStep _ _ i1 i2 => exact Nat.le_trans i1 i2

/-- MAIN (soundness): if the analysis accepts the program then, on every execution path and for any number of
    loop iterations, its result over-approximates the aliasing and no caller-supplied buffer is written -/
theorem absExec_sound (fuel k : Nat) (p : Stmt) : ∀ (A : AState) (s s' : CState), Exec p s s' → Sound k A s → k ≤ s.next →
    (absExec fuel p A).2 = true → Sound k (absExec fuel p A).1 s' ∧ NoNewInputWrite k s s' := by
  induction p with
  | skip =>
    intro A s s' h hs hn _; cases h
    exact ⟨hs, fun b hb _ => hb⟩
  | assign d x =>
    intro A s s' h hs hn _; cases h
    refine ⟨?_, fun b hb _ => hb⟩
    intro v b hv hb
    simp only [absExec, get_set]
    simp only [CState.set] at hv
    by_cases hvd : v = d
    · rw [if_pos hvd] at hv ⊢; exact hs x b hv hb
    · rw [if_neg hvd] at hv ⊢; exact hs v b hv hb
  | fresh d =>
    intro A s s' h hs hn _; cases h
    refine ⟨?_, fun b hb _ => hb⟩
    intro v b hv hb
    simp only [absExec, get_set]
    simp only [CState.set] at hv
    by_cases hvd : v = d
    · rw [if_pos hvd] at hv
      cases hv; omega
    · rw [if_neg hvd] at hv ⊢; exact hs v b hv hb
  | write v =>
    intro A s s' h hs hn hok; cases h
    refine ⟨hs, ?_⟩
    intro b hb hk
    simp only [absExec, List.isEmpty_iff] at hok
    simp only [List.mem_append, Option.mem_toList] at hb
    rcases hb with hb | hb
    · have := hs v b hb hk
      rw [hok] at this; cases this
    · exact hb
  | seq a b iha ihb =>
    intro A s s' h hs hn hok; cases h
    rename_i s1 h1 h2
    simp only [absExec, Bool.and_eq_true] at hok
    obtain ⟨a1, a3⟩ := iha A s s1 h1 hs hn hok.1
    obtain ⟨b1, b3⟩ := ihb _ s1 s' h2 a1 (Nat.le_trans hn (next_mono a s s1 h1)) hok.2
    exact ⟨b1, fun b hb hk => a3 b (b3 b hb hk) hk⟩
  | ite a b iha ihb =>
    intro A s s' h hs hn hok
    simp only [absExec, Bool.and_eq_true] at hok ⊢
    cases h with
    | iteL h1 =>
      obtain ⟨a1, a3⟩ := iha A s s' h1 hs hn hok.1
      exact ⟨sound_mono k _ _ _ a1 (fun v x hx => by rw [mem_get_join]; exact Or.inl hx), a3⟩
    | iteR h1 =>
      obtain ⟨a1, a3⟩ := ihb A s s' h1 hs hn hok.2
      exact ⟨sound_mono k _ _ _ a1 (fun v x hx => by rw [mem_get_join]; exact Or.inr hx), a3⟩
  | loop body ih =>
    intro A s s' h hs hn hok
    simp only [absExec, Bool.and_eq_true] at hok ⊢
    set Af := iterJoin (fun s => (absExec fuel body s).1) fuel A with hAf
    have hsf : Sound k Af s := sound_mono k A Af s hs (fun v x hx => le_iterJoin _ fuel A v x hx)
    have := loop_sound k body Af (absExec fuel body Af).1
      (fun s0 s1 he h0 hn0 =>
        ⟨Nat.le_trans hn0 (next_mono body s0 s1 he), (ih Af s0 s1 he h0 hn0 hok.1).1, (ih Af s0 s1 he h0 hn0 hok.1).2⟩)
      (le_spec _ _ hok.2) s s' h hsf hn
    exact ⟨this.2.1, this.2.2⟩

/-- the caller's k array arguments are bound to variables 0 .. k-1, each to its own buffer -/
def entryState (k : Nat) : CState := { env := fun v => if v < k then some v else none, next := k, written := [] }

theorem entry_sound (k nv : Nat) : Sound k (entry k nv) (entryState k) := by
  intro v b hv hb
  simp only [entryState] at hv
  by_cases hvk : v < k
  · rw [if_pos hvk] at hv
    cases hv
    show v ∈ ((List.range (max k nv)).map _).getD v []
    rw [get_map_range]
    have : v < max k nv := Nat.lt_of_lt_of_le hvk (Nat.le_max_left k nv)
    rw [if_pos this, if_pos hvk]
    exact List.mem_singleton.mpr rfl
  · rw [if_neg hvk] at hv; cases hv

/-- COROLLARY (the property, for the model): an accepted function never writes to a caller-supplied buffer -/
theorem safe_no_input_write (fuel k nv : Nat) (p : Stmt) (h : safe fuel k nv p = true) (s' : CState)
    (hx : Exec p (entryState k) s') : ∀ b ∈ s'.written, ¬ b < k := by
  intro b hb hk
  have := (absExec_sound fuel k p (entry k nv) (entryState k) s' hx (entry_sound k nv) (Nat.le_refl k) h).2 b hb hk
  simp [entryState] at this

/-- the analysis does reject the aliasing patterns behind the historical defects: `m = mask; m |= bad` -/
example : safe 4 2 3 (.seq (.assign 2 1) (.write 2)) = false := by decide
/-- and accepts the defensive-copy form: `m = mask.copy(); m |= bad` -/
example : safe 4 2 3 (.seq (.fresh 2) (.write 2)) = true := by decide
/-- a copy made only on one branch is not enough -/
example : safe 4 1 2 (.seq (.ite (.fresh 1) (.assign 1 0)) (.write 1)) = false := by decide
/-- aliasing introduced late in a loop body is seen by the fixpoint -/
example : safe 4 1 2 (.seq (.fresh 1) (.loop (.seq (.write 1) (.assign 1 0)))) = false := by decide

end PhotVerif.C10
