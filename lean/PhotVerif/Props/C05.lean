/-
  C05 — SegmentationImage attributes always describe the current label array.
  Invariant: every cached attribute equals the attribute derived from the current data;
  proved to be preserved by every read and every mutator of the model (Model/Segm.lean),
  whose cache handling is the table regenerated from photutils/segmentation/core.py.
-/
import PhotVerif.Model.Segm
import Mathlib.Data.List.Basic
import Mathlib.Data.List.Nodup
import Mathlib.Data.List.Sort
import Mathlib.Data.List.Perm.Lattice
import Mathlib.Tactic.Linarith

namespace PhotVerif.C05
open PhotVerif PhotVerif.Model.Segm PhotVerif.Gen.SegmTable

/-! ### facts about the derived attributes -/

theorem foldl_max_ge (l : List Nat) (f : Nat → Nat) : ∀ m, m ≤ l.foldl (fun m p => max m (f p)) m := by
  induction l with
  | nil => intro m; simp
  | cons a l ih => intro m; simp only [List.foldl_cons]; exact le_trans (le_max_left _ _) (ih _)

theorem foldl_max_mem (l : List Nat) (f : Nat → Nat) : ∀ m p, p ∈ l → f p ≤ l.foldl (fun m p => max m (f p)) m := by
  induction l with
  | nil => intro m p h; cases h
  | cons a l ih =>
    intro m p h
    simp only [List.foldl_cons]
    rcases List.mem_cons.mp h with rfl | h
    · exact le_trans (le_max_right _ _) (foldl_max_ge l f _)
    · exact ih _ p h

theorem le_maxLabel (n : Nat) (d : Nat → Nat) (p : Nat) (hp : p < n) : d p ≤ maxLabel n d :=
  foldl_max_mem (List.range n) d 0 p (List.mem_range.mpr hp)

theorem present_iff (n : Nat) (d : Nat → Nat) (l : Nat) : present n d l = true ↔ ∃ p, p < n ∧ d p = l := by
  unfold present; simp [List.any_eq_true]

/-- the derived label list: exactly the non-zero values occurring in the array … -/
theorem mem_dLabels (n : Nat) (d : Nat → Nat) (l : Nat) :
    l ∈ dLabels n d ↔ l ≠ 0 ∧ ∃ p, p < n ∧ d p = l := by
  unfold dLabels
  simp only [List.mem_filter, List.mem_range, Bool.and_eq_true, bne_iff_ne, ne_eq, present_iff]
  constructor
  · rintro ⟨_, h1, h2⟩; exact ⟨h1, h2⟩
  · rintro ⟨h1, p, hp, rfl⟩
    exact ⟨Nat.lt_succ_of_le (le_maxLabel n d p hp), h1, p, hp, rfl⟩

/-- … listed once each in strictly increasing order -/
theorem dLabels_sorted (n : Nat) (d : Nat → Nat) : (dLabels n d).Pairwise (· < ·) := by
  unfold dLabels; exact List.pairwise_lt_range.filter _

theorem dLabels_nodup (n : Nat) (d : Nat → Nat) : (dLabels n d).Nodup :=
  (dLabels_sorted n d).imp (fun h => Nat.ne_of_lt h)

/-- a strictly increasing list with the right members *is* the label list -/
theorem eq_dLabels_of (n : Nat) (d : Nat → Nat) (L : List Nat) (hs : L.Pairwise (· < ·))
    (hm : ∀ l, l ∈ L ↔ l ≠ 0 ∧ ∃ p, p < n ∧ d p = l) : L = dLabels n d := by
  exact hs.eq_of_mem_iff (dLabels_sorted n d) (fun a => by rw [hm, mem_dLabels])

/-- labels recovered from cached `_raw_slices` are the labels of the array -/
theorem labelsFromRaw_dRaw (n nx : Nat) (d : Nat → Nat) : labelsFromRaw (dRaw n nx d) = dLabels n d := by
  apply eq_dLabels_of
  · unfold labelsFromRaw
    have : ∀ (m : Nat) (g : Nat → Bool),
        ((List.range m).filterMap fun i => if g i then some (i + 1) else none).Pairwise (· < ·) := by
      intro m g
      rw [List.pairwise_filterMap]
      refine List.pairwise_lt_range.imp ?_
      intro a b hab x hx y hy
      split at hx <;> split at hy <;> simp_all <;> omega
    exact this _ _
  · intro l
    unfold labelsFromRaw dRaw
    simp only [List.length_map, List.length_range, List.mem_filterMap, List.mem_range]
    constructor
    · rintro ⟨i, hi, h⟩
      split at h
      · rename_i hsome
        simp only [Option.some.injEq] at h
        subst h
        refine ⟨by omega, ?_⟩
        rw [List.getD_eq_getElem?_getD, List.getElem?_map, List.getElem?_range hi] at hsome
        simp only [Option.map_some, Option.getD_some] at hsome
        split at hsome
        · rename_i hp; exact (present_iff n d (i + 1)).mp hp
        · simp at hsome
      · simp at h
    · rintro ⟨h0, p, hp, rfl⟩
      have hle := le_maxLabel n d p hp
      refine ⟨d p - 1, by omega, ?_⟩
      have hpres : present n d (d p - 1 + 1) = true := by
        rw [present_iff]; exact ⟨p, hp, by omega⟩
      rw [List.getD_eq_getElem?_getD, List.getElem?_map, List.getElem?_range (by omega)]
      simp only [Option.map_some, Option.getD_some, hpres, if_true, Option.isSome_some, Option.some.injEq]
      omega

theorem dRaw_getD (n nx : Nat) (d : Nat → Nat) (i : Nat) (hi : i < maxLabel n d) :
    (dRaw n nx d).getD i none =
      if present n d (i + 1) then some (boxOf nx (pix n d (i + 1))) else none := by
  unfold dRaw
  rw [List.getD_eq_getElem?_getD, List.getElem?_map, List.getElem?_range hi]
  simp

/-- slices recovered from `_raw_slices` are the per-label bounding slices in label order -/
theorem slicesFromRaw_dRaw (n nx : Nat) (d : Nat → Nat) : slicesFromRaw (dRaw n nx d) = dSlices n nx d := by
  unfold dSlices
  rw [← labelsFromRaw_dRaw n nx d]
  unfold slicesFromRaw labelsFromRaw
  rw [List.map_filterMap]
  have hlen : (dRaw n nx d).length = maxLabel n d := by unfold dRaw; simp
  rw [hlen]
  conv => lhs; unfold dRaw
  rw [List.filterMap_map]
  apply List.filterMap_congr
  intro i hi
  simp only [List.mem_range] at hi
  simp only [Function.comp, id]
  rw [dRaw_getD n nx d i hi]
  split <;> simp

/-! ### the coherence invariant -/

/-- every cached attribute equals the attribute derived from the current array -/
structure Inv (s : State) : Prop where
  labels : ∀ l, s.cLabels = some l → l = dLabels s.n s.d
  raw : ∀ r, s.cRaw = some r → r = dRaw s.n s.nx s.d
  slices : ∀ r, s.cSlices = some r → r = dSlices s.n s.nx s.d
  areas : ∀ r, s.cAreas = some r → r = dAreas s.n s.d
  nlabels : ∀ k, s.cNlabels = some k → k = (dLabels s.n s.d).length
  max : ∀ m, s.cMax = some m → m = (dLabels s.n s.d).foldl max 0

/-- the part of the state the derived attributes depend on -/
def SameFrame (s t : State) : Prop := t.n = s.n ∧ t.nx = s.nx ∧ t.d = s.d

theorem SameFrame.refl (s : State) : SameFrame s s := ⟨rfl, rfl, rfl⟩
theorem SameFrame.trans {a b c : State} (h1 : SameFrame a b) (h2 : SameFrame b c) : SameFrame a c :=
  ⟨h2.1.trans h1.1, h2.2.1.trans h1.2.1, h2.2.2.trans h1.2.2⟩

theorem inv_setLabels (s : State) (h : Inv s) (v : List Nat) (hv : v = dLabels s.n s.d) :
    Inv (s.setLabels v) ∧ SameFrame s (s.setLabels v) :=
  ⟨⟨fun l hl => by simp only [State.setLabels, Option.some.injEq] at hl; rw [← hl]; exact hv,
    h.raw, h.slices, h.areas, h.nlabels, h.max⟩, rfl, rfl, rfl⟩

theorem inv_setRaw (s : State) (h : Inv s) (v : List (Option Box)) (hv : v = dRaw s.n s.nx s.d) :
    Inv (s.setRaw v) ∧ SameFrame s (s.setRaw v) :=
  ⟨⟨h.labels, fun l hl => by simp only [State.setRaw, Option.some.injEq] at hl; rw [← hl]; exact hv,
    h.slices, h.areas, h.nlabels, h.max⟩, rfl, rfl, rfl⟩

theorem inv_setSlices (s : State) (h : Inv s) (v : List Box) (hv : v = dSlices s.n s.nx s.d) :
    Inv (s.setSlices v) ∧ SameFrame s (s.setSlices v) :=
  ⟨⟨h.labels, h.raw, fun l hl => by simp only [State.setSlices, Option.some.injEq] at hl; rw [← hl]; exact hv,
    h.areas, h.nlabels, h.max⟩, rfl, rfl, rfl⟩

theorem inv_setAreas (s : State) (h : Inv s) (v : List Nat) (hv : v = dAreas s.n s.d) :
    Inv (s.setAreas v) ∧ SameFrame s (s.setAreas v) :=
  ⟨⟨h.labels, h.raw, h.slices, fun l hl => by simp only [State.setAreas, Option.some.injEq] at hl; rw [← hl]; exact hv,
    h.nlabels, h.max⟩, rfl, rfl, rfl⟩

theorem inv_setNlabels (s : State) (h : Inv s) (v : Nat) (hv : v = (dLabels s.n s.d).length) :
    Inv (s.setNlabels v) ∧ SameFrame s (s.setNlabels v) :=
  ⟨⟨h.labels, h.raw, h.slices, h.areas,
    fun l hl => by simp only [State.setNlabels, Option.some.injEq] at hl; rw [← hl]; exact hv, h.max⟩, rfl, rfl, rfl⟩

theorem inv_setMax (s : State) (h : Inv s) (v : Nat) (hv : v = (dLabels s.n s.d).foldl max 0) :
    Inv (s.setMax v) ∧ SameFrame s (s.setMax v) :=
  ⟨⟨h.labels, h.raw, h.slices, h.areas, h.nlabels,
    fun l hl => by simp only [State.setMax, Option.some.injEq] at hl; rw [← hl]; exact hv⟩, rfl, rfl, rfl⟩

theorem readLabels_ok (s : State) (h : Inv s) :
    (readLabels s).2 = dLabels s.n s.d ∧ Inv (readLabels s).1 ∧ SameFrame s (readLabels s).1 := by
  unfold readLabels
  cases hc : s.cLabels with
  | some l => exact ⟨h.labels l hc, h, SameFrame.refl s⟩
  | none =>
    have hval : (match s.cRaw with
        | some raw => if labelsReadsRawWhenCached then labelsFromRaw raw else dLabels s.n s.d
        | none => dLabels s.n s.d) = dLabels s.n s.d := by
      cases hr : s.cRaw with
      | none => rfl
      | some raw =>
        simp only
        split
        · rw [h.raw raw hr]; exact labelsFromRaw_dRaw _ _ _
        · rfl
    exact ⟨hval, inv_setLabels s h _ hval⟩

theorem readRaw_ok (s : State) (h : Inv s) :
    (readRaw s).2 = dRaw s.n s.nx s.d ∧ Inv (readRaw s).1 ∧ SameFrame s (readRaw s).1 := by
  unfold readRaw
  cases hc : s.cRaw with
  | some r => exact ⟨h.raw r hc, h, SameFrame.refl s⟩
  | none => exact ⟨rfl, inv_setRaw s h _ rfl⟩

theorem readSlices_ok (s : State) (h : Inv s) :
    (readSlices s).2 = dSlices s.n s.nx s.d ∧ Inv (readSlices s).1 ∧ SameFrame s (readSlices s).1 := by
  unfold readSlices
  cases hc : s.cSlices with
  | some r => exact ⟨h.slices r hc, h, SameFrame.refl s⟩
  | none =>
    obtain ⟨hv, hi, hf⟩ := readRaw_ok s h
    have hval : slicesFromRaw (readRaw s).2 = dSlices s.n s.nx s.d := by
      rw [hv]; exact slicesFromRaw_dRaw _ _ _
    have hval' : slicesFromRaw (readRaw s).2 = dSlices (readRaw s).1.n (readRaw s).1.nx (readRaw s).1.d := by
      rw [hf.1, hf.2.1, hf.2.2]; exact hval
    have := inv_setSlices (readRaw s).1 hi _ hval'
    exact ⟨hval, this.1, hf.trans this.2⟩

theorem readAreas_ok (s : State) (h : Inv s) :
    (readAreas s).2 = dAreas s.n s.d ∧ Inv (readAreas s).1 ∧ SameFrame s (readAreas s).1 := by
  unfold readAreas
  cases hc : s.cAreas with
  | some r => exact ⟨h.areas r hc, h, SameFrame.refl s⟩
  | none =>
    obtain ⟨hv1, hi1, hf1⟩ := readLabels_ok s h
    obtain ⟨_, hi2, hf2⟩ := readSlices_ok (readLabels s).1 hi1
    have hf := hf1.trans hf2
    simp only
    have hval : List.map (fun l => (pix (readSlices (readLabels s).1).1.n (readSlices (readLabels s).1).1.d l).length)
        (readLabels s).2 = dAreas s.n s.d := by
      rw [hv1, hf.1, hf.2.2]; rfl
    have hval' : List.map (fun l => (pix (readSlices (readLabels s).1).1.n (readSlices (readLabels s).1).1.d l).length)
        (readLabels s).2 = dAreas (readSlices (readLabels s).1).1.n (readSlices (readLabels s).1).1.d := by
      rw [hval, hf.1, hf.2.2]
    have := inv_setAreas _ hi2 _ hval'
    exact ⟨hval, this.1, hf.trans this.2⟩

theorem readNlabels_ok (s : State) (h : Inv s) :
    (readNlabels s).2 = (dLabels s.n s.d).length ∧ Inv (readNlabels s).1 ∧ SameFrame s (readNlabels s).1 := by
  unfold readNlabels
  cases hc : s.cNlabels with
  | some r => exact ⟨h.nlabels r hc, h, SameFrame.refl s⟩
  | none =>
    obtain ⟨hv1, hi1, hf1⟩ := readLabels_ok s h
    simp only
    have hval : (readLabels s).2.length = (dLabels (readLabels s).1.n (readLabels s).1.d).length := by
      rw [hv1, hf1.1, hf1.2.2]
    have := inv_setNlabels _ hi1 _ hval
    exact ⟨by rw [hv1], this.1, hf1.trans this.2⟩

theorem readMax_ok (s : State) (h : Inv s) :
    (readMax s).2 = (dLabels s.n s.d).foldl max 0 ∧ Inv (readMax s).1 ∧ SameFrame s (readMax s).1 := by
  unfold readMax
  cases hc : s.cMax with
  | some r => exact ⟨h.max r hc, h, SameFrame.refl s⟩
  | none =>
    obtain ⟨hv1, hi1, hf1⟩ := readNlabels_ok s h
    simp only
    split
    · rename_i h0
      have hnil : dLabels s.n s.d = [] := by
        rw [hv1] at h0; exact List.eq_nil_of_length_eq_zero h0
      have hval : (0 : Nat) = (dLabels (readNlabels s).1.n (readNlabels s).1.d).foldl max 0 := by
        rw [hf1.1, hf1.2.2, hnil]; rfl
      have := inv_setMax _ hi1 _ hval
      exact ⟨by rw [hnil]; rfl, this.1, hf1.trans this.2⟩
    · obtain ⟨hv2, hi2, hf2⟩ := readLabels_ok _ hi1
      have hf := hf1.trans hf2
      have hval : (readLabels (readNlabels s).1).2.foldl max 0 = (dLabels s.n s.d).foldl max 0 := by
        rw [hv2, hf1.1, hf1.2.2]
      have hval' : (readLabels (readNlabels s).1).2.foldl max 0
          = (dLabels (readLabels (readNlabels s).1).1.n (readLabels (readNlabels s).1).1.d).foldl max 0 := by
        rw [hval, hf.1, hf.2.2]
      have := inv_setMax _ hi2 _ hval'
      exact ⟨hval, this.1, hf.trans this.2⟩

/-! ### consecutive relabelling -/

theorem rankMap_of_mem (labs : List Nat) (st l : Nat) (h : l ∈ labs) :
    rankMap labs st l = st + labs.idxOf l := by
  unfold rankMap; simp [h]

theorem rankMap_of_not_mem (labs : List Nat) (st l : Nat) (h : l ∉ labs) : rankMap labs st l = 0 := by
  unfold rankMap; simp [h]

/-- for a label array `d` with labels `labs`, the renumbered array has labels `st, st+1, …` -/
theorem relabel_labels (n : Nat) (d : Nat → Nat) (st : Nat) (hst : 0 < st) :
    dLabels n (fun p => rankMap (dLabels n d) st (d p))
      = (List.range (dLabels n d).length).map (st + ·) := by
  symm
  apply eq_dLabels_of
  · rw [List.pairwise_map]
    exact List.pairwise_lt_range.imp (fun h => by omega)
  · intro k
    simp only [List.mem_map, List.mem_range]
    constructor
    · rintro ⟨i, hi, rfl⟩
      refine ⟨by omega, ?_⟩
      have hm : (dLabels n d)[i] ∈ dLabels n d := List.getElem_mem hi
      obtain ⟨_, p, hp, hdp⟩ := (mem_dLabels n d _).mp hm
      refine ⟨p, hp, ?_⟩
      rw [hdp, rankMap_of_mem _ _ _ hm, (dLabels_nodup n d).idxOf_getElem]
    · rintro ⟨hk, p, hp, hfp⟩
      by_cases hm : d p ∈ dLabels n d
      · rw [rankMap_of_mem _ _ _ hm] at hfp
        exact ⟨(dLabels n d).idxOf (d p), List.idxOf_lt_length_iff.mpr hm, hfp⟩
      · rw [rankMap_of_not_mem _ _ _ hm] at hfp; omega

/-- `relabel=True` leaves labels 1..N: the array written by `reassign_labels(ls, new, relabel=True)` (the model's `newd`:
    reassign, then rank the surviving labels from 1) has exactly the labels 1, 2, …, N -/
theorem reassign_relabel_labels (n : Nat) (d : Nat → Nat) (ls : List Nat) (new : Nat) :
    let g : Nat → Nat := fun l => if ls.contains l then new else l
    dLabels n (fun p => rankMap (dLabels n (fun p => g (d p))) 1 (g (d p)))
      = (List.range (dLabels n (fun p => g (d p))).length).map (1 + ·) := by
  intro g
  exact relabel_labels n (fun p => g (d p)) 1 (by omega)

theorem pix_relabel (n : Nat) (d : Nat → Nat) (st : Nat) (hst : 0 < st) (i : Nat)
    (hi : i < (dLabels n d).length) :
    pix n (fun p => rankMap (dLabels n d) st (d p)) (st + i) = pix n d ((dLabels n d)[i]) := by
  unfold pix
  apply List.filter_congr
  intro p hp
  simp only [List.mem_range] at hp
  have hm : (dLabels n d)[i] ∈ dLabels n d := List.getElem_mem hi
  beta_reduce
  by_cases hd : d p ∈ dLabels n d
  · rw [rankMap_of_mem _ _ _ hd]
    have : (st + (dLabels n d).idxOf (d p) == st + i) = (d p == (dLabels n d)[i]) := by
      rw [Bool.eq_iff_iff]
      simp only [beq_iff_eq]
      constructor
      · intro h
        have : (dLabels n d).idxOf (d p) = i := by omega
        subst this; simp [List.getElem_idxOf]
      · intro h
        rw [h, (dLabels_nodup n d).idxOf_getElem]
    exact this
  · rw [rankMap_of_not_mem _ _ _ hd]
    have h1 : (0 == st + i) = false := by simp; omega
    have h2 : (d p == (dLabels n d)[i]) = false := by
      simp only [beq_eq_false_iff_ne, ne_eq]
      intro h; rw [h] at hd; exact hd hm
    rw [h1, h2]

/-- the per-label bounding slices are unchanged by consecutive renumbering ("slice order is unchanged") -/
theorem relabel_slices (n nx : Nat) (d : Nat → Nat) (st : Nat) (hst : 0 < st) :
    dSlices n nx (fun p => rankMap (dLabels n d) st (d p)) = dSlices n nx d := by
  unfold dSlices
  rw [relabel_labels n d st hst, List.map_map]
  apply List.ext_getElem
  · simp
  · intro i h1 h2
    simp only [List.length_map, List.length_range] at h1
    simp only [List.getElem_map, List.getElem_range, Function.comp]
    rw [pix_relabel n d st hst i h1]

theorem relabel_areas (n : Nat) (d : Nat → Nat) (st : Nat) (hst : 0 < st) :
    dAreas n (fun p => rankMap (dLabels n d) st (d p)) = dAreas n d := by
  unfold dAreas
  rw [relabel_labels n d st hst, List.map_map]
  apply List.ext_getElem
  · simp
  · intro i h1 h2
    simp only [List.length_map, List.length_range] at h1
    simp only [List.getElem_map, List.getElem_range, Function.comp]
    rw [pix_relabel n d st hst i h1]

/-! ### mutators -/

theorem getD_map_range (n : Nat) (g : Nat → Nat) (p : Nat) (hp : p < n) :
    ((Array.range n).map g).getD p 0 = g p := by
  simp [Array.getD, hp]

theorem pix_congr (n : Nat) (d d' : Nat → Nat) (h : ∀ p, p < n → d p = d' p) (l : Nat) :
    pix n d l = pix n d' l := by
  unfold pix
  apply List.filter_congr
  intro p hp
  rw [h p (List.mem_range.mp hp)]

theorem dLabels_congr (n : Nat) (d d' : Nat → Nat) (h : ∀ p, p < n → d p = d' p) :
    dLabels n d = dLabels n d' := by
  apply eq_dLabels_of
  · exact dLabels_sorted n d
  · intro l
    rw [mem_dLabels]
    constructor
    · rintro ⟨h0, p, hp, hd⟩; exact ⟨h0, p, hp, by rw [← h p hp]; exact hd⟩
    · rintro ⟨h0, p, hp, hd⟩; exact ⟨h0, p, hp, by rw [h p hp]; exact hd⟩

theorem dSlices_congr (n nx : Nat) (d d' : Nat → Nat) (h : ∀ p, p < n → d p = d' p) :
    dSlices n nx d = dSlices n nx d' := by
  unfold dSlices
  rw [dLabels_congr n d d' h]
  apply List.map_congr_left
  intro l _
  rw [pix_congr n d d' h l]

/-- a state whose caches are all empty is coherent -/
theorem inv_of_empty (s : State) (h1 : s.cLabels = none) (h2 : s.cRaw = none) (h3 : s.cSlices = none)
    (h4 : s.cAreas = none) (h5 : s.cNlabels = none) (h6 : s.cMax = none) : Inv s :=
  ⟨fun _ h => (by rw [h1] at h; cases h), fun _ h => (by rw [h2] at h; cases h),
   fun _ h => (by rw [h3] at h; cases h), fun _ h => (by rw [h4] at h; cases h),
   fun _ h => (by rw [h5] at h; cases h), fun _ h => (by rw [h6] at h; cases h)⟩

/-- TABLE OBLIGATION (reassign_labels): the generated row resets every cache and seeds nothing,
    so the state after the mutator is coherent whatever was cached before. -/
theorem commit_reassign_inv (s : State) (newd : Array Nat) (f : Nat → Nat) :
    Inv (commit reassignRow s newd f [] none) := by
  apply inv_of_empty <;> rfl

/-- TABLE OBLIGATION (data setter): caches reset, `labels` re-seeded with the new array's labels -/
theorem commit_setter_inv (s : State) (ny nx : Nat) (newd : Array Nat) (dtmax : Nat) :
    Inv (setData s ny nx newd dtmax) := by
  refine ⟨?_, ?_, ?_, ?_, ?_, ?_⟩
  · intro l hl
    have : (setData s ny nx newd dtmax).cLabels = some (dLabels (ny * nx) (fun p => newd.getD p 0)) := rfl
    rw [this] at hl; simp only [Option.some.injEq] at hl; rw [← hl]; rfl
  all_goals (intro r hr; exact absurd hr (by simp [setData, commit, setterRow, applySeeds, State.resetCaches, State.setLabels, State.setSlices]))

/-- TABLE OBLIGATION (relabel_consecutive): caches reset; `labels` re-seeded with start..start+N-1 and
    `slices` re-seeded with the *old* slices — both equal what a fresh object derives from the new array. -/
theorem commit_relabel_inv (s : State) (hinv : Inv s) (st : Nat) (hst : 0 < st) :
    let labs := dLabels s.n s.d
    let f := rankMap labs st
    let newd := (Array.range s.n).map fun p => f (s.d p)
    Inv (commit relabelRow s newd f ((List.range labs.length).map (st + ·)) s.cSlices) := by
  intro labs f newd
  have hd : ∀ p, p < s.n → (fun p => newd.getD p 0) p = (fun p => rankMap labs st (s.d p)) p := by
    intro p hp; exact getD_map_range s.n _ p hp
  have hn : (commit relabelRow s newd f ((List.range labs.length).map (st + ·)) s.cSlices).n = s.n := by
    cases hs : s.cSlices <;> rfl
  have hnx : (commit relabelRow s newd f ((List.range labs.length).map (st + ·)) s.cSlices).nx = s.nx := by
    cases hs : s.cSlices <;> rfl
  have hdd : (commit relabelRow s newd f ((List.range labs.length).map (st + ·)) s.cSlices).d
      = fun p => newd.getD p 0 := by
    cases hs : s.cSlices <;> rfl
  refine ⟨?_, ?_, ?_, ?_, ?_, ?_⟩
  · intro l hl
    have hc : (commit relabelRow s newd f ((List.range labs.length).map (st + ·)) s.cSlices).cLabels
        = some ((List.range labs.length).map (st + ·)) := by
      cases hs : s.cSlices <;> rfl
    rw [hc] at hl; simp only [Option.some.injEq] at hl
    rw [← hl, hn, hdd, dLabels_congr s.n _ _ hd]
    exact (relabel_labels s.n s.d st hst).symm
  · intro r hr
    have hc : (commit relabelRow s newd f ((List.range labs.length).map (st + ·)) s.cSlices).cRaw = none := by
      cases hs : s.cSlices <;> rfl
    rw [hc] at hr; cases hr
  · intro r hr
    cases hs : s.cSlices with
    | none =>
      have hc : (commit relabelRow s newd f ((List.range labs.length).map (st + ·)) none).cSlices = none := rfl
      rw [hs] at hr; rw [hc] at hr; cases hr
    | some o =>
      have hc : (commit relabelRow s newd f ((List.range labs.length).map (st + ·)) (some o)).cSlices = some o := rfl
      rw [hs] at hr hn hnx hdd
      rw [hc] at hr; simp only [Option.some.injEq] at hr
      rw [← hr, hn, hnx, hdd, dSlices_congr s.n s.nx _ _ hd, relabel_slices s.n s.nx s.d st hst]
      exact hinv.slices o hs
  · intro r hr
    have hc : (commit relabelRow s newd f ((List.range labs.length).map (st + ·)) s.cSlices).cAreas = none := by
      cases hs : s.cSlices <;> rfl
    rw [hc] at hr; cases hr
  · intro r hr
    have hc : (commit relabelRow s newd f ((List.range labs.length).map (st + ·)) s.cSlices).cNlabels = none := by
      cases hs : s.cSlices <;> rfl
    rw [hc] at hr; cases hr
  · intro r hr
    have hc : (commit relabelRow s newd f ((List.range labs.length).map (st + ·)) s.cSlices).cMax = none := by
      cases hs : s.cSlices <;> rfl
    rw [hc] at hr; cases hr

theorem readLabels_cSlices (s : State) : (readLabels s).1.cSlices = s.cSlices := by
  unfold readLabels; cases s.cLabels <;> rfl

theorem readNlabels_cSlices (s : State) : (readNlabels s).1.cSlices = s.cSlices := by
  unfold readNlabels
  cases s.cNlabels with
  | some r => rfl
  | none => exact readLabels_cSlices s

theorem readMax_cSlices (s : State) : (readMax s).1.cSlices = s.cSlices := by
  unfold readMax
  cases s.cMax with
  | some r => rfl
  | none =>
    simp only
    split
    · exact readNlabels_cSlices s
    · show (readLabels (readNlabels s).1).1.cSlices = s.cSlices
      rw [readLabels_cSlices, readNlabels_cSlices]

theorem checkLabels_ok (s : State) (h : Inv s) (ls : List Nat) :
    Inv (checkLabels s ls).1 ∧ SameFrame s (checkLabels s ls).1 := by
  unfold checkLabels
  obtain ⟨_, hi, hf⟩ := readLabels_ok s h
  exact ⟨hi, hf⟩

theorem relabelConsecutive_inv (s : State) (h : Inv s) (start : Int) :
    Inv (relabelConsecutive s start).1 := by
  unfold relabelConsecutive
  obtain ⟨hv1, hi1, hf1⟩ := readNlabels_ok s h
  simp only
  split
  · exact hi1
  · split
    · exact hi1
    · rename_i hpos
      split
      · exact hi1
      · obtain ⟨hv2, hi2, hf2⟩ := readLabels_ok _ hi1
        split
        · exact hi2
        · obtain ⟨_, hi3, hf3⟩ := readMax_ok _ hi2
          have hst : 0 < start.toNat := by omega
          have key := commit_relabel_inv (readMax (readLabels (readNlabels s).1).1).1 hi3 start.toNat hst
          simp only at key
          have e1 : (readLabels (readNlabels s).1).2
              = dLabels (readMax (readLabels (readNlabels s).1).1).1.n (readMax (readLabels (readNlabels s).1).1).1.d := by
            rw [hv2, hf3.1, hf3.2.2, hf2.1, hf2.2.2]
          have e2 : (readNlabels s).2
              = (dLabels (readMax (readLabels (readNlabels s).1).1).1.n (readMax (readLabels (readNlabels s).1).1).1.d).length := by
            rw [hv1, hf3.1, hf3.2.2, hf2.1, hf2.2.2, hf1.1, hf1.2.2]
          have e3 : (readLabels (readNlabels s).1).1.cSlices = (readMax (readLabels (readNlabels s).1).1).1.cSlices := by
            rw [readMax_cSlices]
          rw [e1, e2, e3]
          exact key

theorem reassign_inv (s : State) (h : Inv s) (ls : List Nat) (new : Nat) (rl : Bool) :
    Inv (reassign s ls new rl).1 := by
  unfold reassign
  obtain ⟨hi1, _⟩ := checkLabels_ok s h ls
  simp only
  split
  · exact hi1
  · split
    · split
      · exact relabelConsecutive_inv _ hi1 1
      · exact hi1
    · obtain ⟨_, hi2, _⟩ := readMax_ok _ hi1
      obtain ⟨_, hi3, _⟩ := readLabels_ok _ hi2
      split
      · exact hi3
      · exact commit_reassign_inv _ _ _

theorem removeLabels_inv (s : State) (h : Inv s) (ls : List Nat) (rl : Bool) :
    Inv (removeLabels s ls rl).1 := by
  unfold removeLabels
  obtain ⟨hi1, _⟩ := checkLabels_ok s h ls
  simp only
  split
  · exact hi1
  · exact reassign_inv _ hi1 _ _ _

theorem keepLabels_inv (s : State) (h : Inv s) (ls : List Nat) (rl : Bool) :
    Inv (keepLabels s ls rl).1 := by
  unfold keepLabels
  obtain ⟨hi1, _⟩ := checkLabels_ok s h ls
  simp only
  split
  · exact hi1
  · obtain ⟨_, hi2, _⟩ := readLabels_ok _ hi1
    exact removeLabels_inv _ hi2 _ _

theorem removeMasked_inv (s : State) (h : Inv s) (mask : Nat → Bool) (po rl : Bool) :
    Inv (removeMasked s mask po rl).1 := by
  unfold removeMasked
  exact removeLabels_inv _ h _ _

theorem removeBorder_inv (s : State) (h : Inv s) (w : Nat) (po rl : Bool) :
    Inv (removeBorder s w po rl).1 := by
  unfold removeBorder
  split
  · exact h
  · exact removeMasked_inv _ h _ _ _

theorem ofExcept_fst (r : State × Except Err Unit) : (ofExcept r).1 = r.1 := by
  obtain ⟨s, e⟩ := r; cases e <;> rfl

/-- every operation preserves coherence … -/
theorem step_inv (s : State) (h : Inv s) (o : Op) : Inv (step s o).1 := by
  cases o with
  | readLabels => exact (readLabels_ok s h).2.1
  | readRaw => exact (readRaw_ok s h).2.1
  | readSlices => exact (readSlices_ok s h).2.1
  | readAreas => exact (readAreas_ok s h).2.1
  | readNlabels => exact (readNlabels_ok s h).2.1
  | readMax => exact (readMax_ok s h).2.1
  | reassign ls new rl => simp only [step, ofExcept_fst]; exact reassign_inv s h ls new rl
  | relabel st => simp only [step, ofExcept_fst]; exact relabelConsecutive_inv s h st
  | keep ls rl => simp only [step, ofExcept_fst]; exact keepLabels_inv s h ls rl
  | remove ls rl => simp only [step, ofExcept_fst]; exact removeLabels_inv s h ls rl
  | removeMasked m po rl =>
    simp only [step]
    split
    · exact h
    · simp only [ofExcept_fst]; exact removeMasked_inv s h _ po rl
  | removeBorder w po rl => simp only [step, ofExcept_fst]; exact removeBorder_inv s h w po rl
  | setData ny nx data dtmax => exact commit_setter_inv s ny nx data dtmax

/-- a freshly constructed object is coherent -/
theorem init_inv (ny nx : Nat) (data : Array Nat) (dtmax : Nat) : Inv (init ny nx data dtmax) := by
  refine ⟨?_, ?_, ?_, ?_, ?_, ?_⟩
  · intro l hl; simp only [init, Option.some.injEq] at hl; rw [← hl]; rfl
  all_goals (intro r hr; simp [init] at hr)

/-- MAIN: after ANY finite history of mutators and reads on a fresh object, the state is coherent … -/
theorem history_inv (ny nx : Nat) (data : Array Nat) (dtmax : Nat) (ops : List Op) :
    Inv (run (init ny nx data dtmax) ops) := by
  unfold run
  have hs0 := init_inv ny nx data dtmax
  generalize init ny nx data dtmax = s0 at hs0 ⊢
  have h0 : ∀ s, Inv s → Inv (ops.foldl (fun s o => (step s o).1) s) := by
    induction ops with
    | nil => intro s h; exact h
    | cons o ops ih => intro s h; exact ih _ (step_inv s h o)
  exact h0 s0 hs0

/-- … hence every attribute read after the history equals the attribute a freshly constructed
    SegmentationImage derives from the same array (labels, raw slices, slices, areas, nlabels, max_label). -/
theorem history_reads_fresh (ny nx : Nat) (data : Array Nat) (dtmax : Nat) (ops : List Op) :
    let s := run (init ny nx data dtmax) ops
    (readLabels s).2 = dLabels s.n s.d ∧ (readRaw s).2 = dRaw s.n s.nx s.d ∧
    (readSlices s).2 = dSlices s.n s.nx s.d ∧ (readAreas s).2 = dAreas s.n s.d ∧
    (readNlabels s).2 = (dLabels s.n s.d).length ∧ (readMax s).2 = (dLabels s.n s.d).foldl max 0 := by
  intro s
  have h := history_inv ny nx data dtmax ops
  exact ⟨(readLabels_ok s h).1, (readRaw_ok s h).1, (readSlices_ok s h).1, (readAreas_ok s h).1,
    (readNlabels_ok s h).1, (readMax_ok s h).1⟩

theorem dLabels_zero (n : Nat) : dLabels n (fun _ => 0) = [] := by
  symm
  apply eq_dLabels_of
  · exact List.Pairwise.nil
  · intro l
    simp only [List.not_mem_nil, false_iff, not_and, not_exists]
    intro h0 p _ hp
    exact h0 hp.symm

theorem readLabels_data (s : State) : (readLabels s).1.data = s.data := by
  unfold readLabels; cases s.cLabels <;> rfl

/-- a zero border width removes nothing: without `relabel` the label array is unchanged; with `relabel` the call is
    exactly `relabel_consecutive()` (no label is removed, the labels become 1..N) -/
theorem removeBorder_zero_noop (s : State) (po : Bool) (hs : 0 < min s.ny s.nx) :
    (removeBorder s 0 po false).1.data = s.data ∧ (removeBorder s 0 po false).2 = .ok () ∧
    removeBorder s 0 po true = relabelConsecutive (readLabels (readLabels s).1).1 1 := by
  have key : ∀ rl, removeBorder s 0 po rl
      = (if rl = true then relabelConsecutive (readLabels (readLabels s).1).1 1 else ((readLabels (readLabels s).1).1, .ok ())) := by
    intro rl
    unfold removeBorder
    rw [if_neg (by omega)]
    unfold removeMasked
    have hm : (fun p => if borderMask s.ny s.nx 0 true p = true then s.d p else 0) = fun _ => 0 := by
      funext p; simp [borderMask]
    rw [hm, dLabels_zero]
    simp only
    have hrm : (if po = true then ([] : List Nat) else
        List.filter (fun l => !(dLabels s.n fun p => if borderMask s.ny s.nx 0 true p = true then 0 else s.d p).contains l) []) = [] := by
      split <;> rfl
    rw [hrm]
    unfold removeLabels checkLabels
    simp only [List.all_nil, Bool.not_true, Bool.false_eq_true, if_false]
    unfold reassign checkLabels
    simp only [List.all_nil, Bool.not_true, Bool.false_eq_true, if_false, List.isEmpty_nil, if_true]
  refine ⟨?_, ?_, ?_⟩
  · rw [key false]; simp only [Bool.false_eq_true, if_false]; rw [readLabels_data, readLabels_data]
  · rw [key false]; simp
  · rw [key true]; simp

/-! ### the deblended-label map never names an absent label -/

def DmapOK (s : State) : Prop := ∀ pc ∈ s.dmap, ∀ c ∈ pc.2, c ∈ dLabels s.n s.d

theorem mem_updateDmap (dm : List (Nat × List Nat)) (f : Nat → Nat) (pc : Nat × List Nat)
    (h : pc ∈ updateDmap dm f) (c : Nat) (hc : c ∈ pc.2) :
    c ≠ 0 ∧ ∃ pc0 ∈ dm, ∃ c0 ∈ pc0.2, c = f c0 := by
  unfold updateDmap at h
  have hz : dmapDropsZero = true := rfl
  have he : dmapDropsEmpty = true := rfl
  simp only [hz, he, if_true, List.mem_filter, List.mem_map] at h
  obtain ⟨⟨pc0, hpc0, rfl⟩, _⟩ := h
  simp only [List.mem_filter, List.mem_map, bne_iff_ne, ne_eq] at hc
  obtain ⟨⟨c0, hc0, rfl⟩, hne⟩ := hc
  exact ⟨hne, pc0, hpc0, c0, hc0, rfl⟩

/-- pushing the map through a relabel map `f` keeps it sound for the relabelled array `f ∘ d` -/
theorem dmapOK_update (n : Nat) (d d' : Nat → Nat) (f : Nat → Nat) (dm : List (Nat × List Nat))
    (hd : ∀ p, p < n → d' p = f (d p))
    (h : ∀ pc ∈ dm, ∀ c ∈ pc.2, c ∈ dLabels n d) :
    ∀ pc ∈ updateDmap dm f, ∀ c ∈ pc.2, c ∈ dLabels n d' := by
  intro pc hpc c hc
  obtain ⟨hne, pc0, hpc0, c0, hc0, rfl⟩ := mem_updateDmap dm f pc hpc c hc
  obtain ⟨_, p, hp, hdp⟩ := (mem_dLabels n d c0).mp (h pc0 hpc0 c0 hc0)
  exact (mem_dLabels n d' _).mpr ⟨hne, p, hp, by rw [hd p hp, hdp]⟩

theorem readLabels_dmap (s : State) : (readLabels s).1.dmap = s.dmap := by
  unfold readLabels; cases s.cLabels <;> rfl
theorem readNlabels_dmap (s : State) : (readNlabels s).1.dmap = s.dmap := by
  unfold readNlabels
  cases s.cNlabels with
  | some r => rfl
  | none => exact readLabels_dmap s
theorem readMax_dmap (s : State) : (readMax s).1.dmap = s.dmap := by
  unfold readMax
  cases s.cMax with
  | some r => rfl
  | none =>
    simp only
    split
    · exact readNlabels_dmap s
    · show (readLabels (readNlabels s).1).1.dmap = s.dmap
      rw [readLabels_dmap, readNlabels_dmap]

theorem dmapOK_frame (s t : State) (hf : SameFrame s t) (hd : t.dmap = s.dmap) (h : DmapOK s) : DmapOK t := by
  unfold DmapOK at *
  rw [hd, hf.1, hf.2.2]; exact h

theorem commit_reassign_dmapOK (s : State) (h : DmapOK s) (f : Nat → Nat) :
    DmapOK (commit reassignRow s ((Array.range s.n).map fun p => f (s.d p)) f [] none) := by
  unfold DmapOK
  have e1 : (commit reassignRow s ((Array.range s.n).map fun p => f (s.d p)) f [] none).dmap
      = updateDmap s.dmap f := rfl
  have e2 : (commit reassignRow s ((Array.range s.n).map fun p => f (s.d p)) f [] none).n = s.n := rfl
  have e3 : (commit reassignRow s ((Array.range s.n).map fun p => f (s.d p)) f [] none).d
      = fun p => ((Array.range s.n).map fun p => f (s.d p)).getD p 0 := rfl
  rw [e1, e2, e3]
  exact dmapOK_update s.n s.d _ f s.dmap (fun p hp => getD_map_range s.n _ p hp) h

theorem commit_relabel_dmapOK (s : State) (h : DmapOK s) (f : Nat → Nat) (nl : List Nat) (o : Option (List Box)) :
    DmapOK (commit relabelRow s ((Array.range s.n).map fun p => f (s.d p)) f nl o) := by
  unfold DmapOK
  have e1 : (commit relabelRow s ((Array.range s.n).map fun p => f (s.d p)) f nl o).dmap
      = updateDmap s.dmap f := by cases o <;> rfl
  have e2 : (commit relabelRow s ((Array.range s.n).map fun p => f (s.d p)) f nl o).n = s.n := by
    cases o <;> rfl
  have e3 : (commit relabelRow s ((Array.range s.n).map fun p => f (s.d p)) f nl o).d
      = fun p => ((Array.range s.n).map fun p => f (s.d p)).getD p 0 := by cases o <;> rfl
  rw [e1, e2, e3]
  exact dmapOK_update s.n s.d _ f s.dmap (fun p hp => getD_map_range s.n _ p hp) h

theorem relabelConsecutive_dmapOK (s : State) (hi : Inv s) (h : DmapOK s) (start : Int) :
    DmapOK (relabelConsecutive s start).1 := by
  unfold relabelConsecutive
  obtain ⟨_, hi1, hf1⟩ := readNlabels_ok s hi
  have h1 := dmapOK_frame s _ hf1 (readNlabels_dmap s) h
  simp only
  split
  · exact h1
  · split
    · exact h1
    · split
      · exact h1
      · obtain ⟨_, hi2, hf2⟩ := readLabels_ok _ hi1
        have h2 := dmapOK_frame _ _ hf2 (readLabels_dmap _) h1
        split
        · exact h2
        · obtain ⟨_, hi3, hf3⟩ := readMax_ok _ hi2
          have h3 := dmapOK_frame _ _ hf3 (readMax_dmap _) h2
          exact commit_relabel_dmapOK _ h3 _ _ _

theorem reassign_dmapOK (s : State) (hi : Inv s) (h : DmapOK s) (ls : List Nat) (new : Nat) (rl : Bool) :
    DmapOK (reassign s ls new rl).1 := by
  unfold reassign checkLabels
  obtain ⟨_, hi1, hf1⟩ := readLabels_ok s hi
  have h1 := dmapOK_frame s _ hf1 (readLabels_dmap s) h
  simp only
  split
  · exact h1
  · split
    · split
      · exact relabelConsecutive_dmapOK _ hi1 h1 1
      · exact h1
    · obtain ⟨_, hi2, hf2⟩ := readMax_ok _ hi1
      have h2 := dmapOK_frame _ _ hf2 (readMax_dmap _) h1
      obtain ⟨_, hi3, hf3⟩ := readLabels_ok _ hi2
      have h3 := dmapOK_frame _ _ hf3 (readLabels_dmap _) h2
      split
      · exact h3
      · exact commit_reassign_dmapOK _ h3 _

theorem removeLabels_dmapOK (s : State) (hi : Inv s) (h : DmapOK s) (ls : List Nat) (rl : Bool) :
    DmapOK (removeLabels s ls rl).1 := by
  unfold removeLabels checkLabels
  obtain ⟨_, hi1, hf1⟩ := readLabels_ok s hi
  have h1 := dmapOK_frame s _ hf1 (readLabels_dmap s) h
  simp only
  split
  · exact h1
  · exact reassign_dmapOK _ hi1 h1 _ _ _

theorem keepLabels_dmapOK (s : State) (hi : Inv s) (h : DmapOK s) (ls : List Nat) (rl : Bool) :
    DmapOK (keepLabels s ls rl).1 := by
  unfold keepLabels checkLabels
  obtain ⟨_, hi1, hf1⟩ := readLabels_ok s hi
  have h1 := dmapOK_frame s _ hf1 (readLabels_dmap s) h
  simp only
  split
  · exact h1
  · obtain ⟨_, hi2, hf2⟩ := readLabels_ok _ hi1
    have h2 := dmapOK_frame _ _ hf2 (readLabels_dmap _) h1
    exact removeLabels_dmapOK _ hi2 h2 _ _

/-- MAIN (bookkeeping): every label mutator keeps the deblended-label map naming only labels that are
    present in the array (removed children are dropped, renumbered children follow the relabel map). -/
theorem mutators_keep_dmap_sound (s : State) (hi : Inv s) (h : DmapOK s) :
    (∀ ls new rl, DmapOK (reassign s ls new rl).1) ∧ (∀ st, DmapOK (relabelConsecutive s st).1) ∧
    (∀ ls rl, DmapOK (removeLabels s ls rl).1) ∧ (∀ ls rl, DmapOK (keepLabels s ls rl).1) ∧
    (∀ m po rl, DmapOK (removeMasked s m po rl).1) ∧ (∀ w po rl, DmapOK (removeBorder s w po rl).1) := by
  refine ⟨fun ls new rl => reassign_dmapOK s hi h ls new rl, fun st => relabelConsecutive_dmapOK s hi h st,
    fun ls rl => removeLabels_dmapOK s hi h ls rl, fun ls rl => keepLabels_dmapOK s hi h ls rl, ?_, ?_⟩
  · intro m po rl; unfold removeMasked; exact removeLabels_dmapOK s hi h _ _
  · intro w po rl; unfold removeBorder
    split
    · exact h
    · unfold removeMasked; exact removeLabels_dmapOK s hi h _ _

/-- assigning new data resets the map (fresh-object behaviour) -/
theorem setData_dmap (s : State) (ny nx : Nat) (newd : Array Nat) (dtmax : Nat) :
    (setData s ny nx newd dtmax).dmap = [] := rfl

-- non-vacuity: a 2×3 array with labels {2,5}, relabelled consecutively, then label 1 removed
example : (run (init 2 3 #[2, 2, 0, 0, 5, 5] 255) [.readSlices, .relabel 1, .readAreas, .remove [1] false]).data
    = #[0, 0, 0, 0, 2, 2] := by decide +kernel

end PhotVerif.C05
