/-
  C17 — centroid functions locate symmetric sources exactly and act per source.
-/
import PhotVerif.Model.Centroid
import Mathlib.Algebra.Order.Field.Rat
import Mathlib.Algebra.BigOperators.Group.List.Basic
import Mathlib.Algebra.BigOperators.Ring.List
import Mathlib.Tactic.FieldSimp
import Mathlib.Tactic.Ring
import Mathlib.Tactic.Linarith
import PhotVerif.Gen.ForwardTable

namespace PhotVerif.C17
open PhotVerif.Model PhotVerif.Model.Centroid PhotVerif.Gen.CentroidTable

theorem sumR_eq (l : List Rat) : sumR l = l.sum := by unfold sumR; rw [List.sum_eq_foldl]

theorem sumR_smul (k : Rat) (l : List Rat) : sumR (l.map (k * ·)) = k * sumR l := by
  rw [sumR_eq, sumR_eq, List.sum_map_mul_left]; simp

/-! ### centroid_com -/

/-- values stored under masked pixels are ignored -/
theorem com_mask_blind (ny nx : Nat) (d d' : Nat → V) (mask : Nat → Bool)
    (h : ∀ p, mask p = false → d' p = d p) : centroidCom ny nx d' mask = centroidCom ny nx d mask := by
  have hv : ∀ p, comVal d' mask p = comVal d mask p := by
    intro p; unfold comVal
    by_cases hm : mask p = true
    · simp [hm]
    · have hm' : mask p = false := by simpa using hm
      simp [hm', h p hm']
  have hv' : comVal d' mask = comVal d mask := funext hv
  unfold centroidCom
  rw [hv']

/-- positive (indeed any non-zero) rescaling of the data leaves the centre of mass unchanged -/
theorem com_scale (ny nx : Nat) (q : Nat → Rat) (mask : Nat → Bool) (k : Rat) (hk : k ≠ 0) :
    centroidCom ny nx (fun p => V.fin (k * q p)) mask = centroidCom ny nx (fun p => V.fin (q p)) mask := by
  have hv : ∀ p, comVal (fun p => V.fin (k * q p)) mask p = k * comVal (fun p => V.fin (q p)) mask p := by
    intro p; unfold comVal; split <;> simp
  have hv' : comVal (fun p => V.fin (k * q p)) mask = fun p => k * comVal (fun p => V.fin (q p)) mask p := funext hv
  unfold centroidCom
  rw [hv']
  simp only
  have e0 : sumR ((List.range (ny * nx)).map fun p => k * comVal (fun p => V.fin (q p)) mask p)
      = k * sumR ((List.range (ny * nx)).map (comVal (fun p => V.fin (q p)) mask)) := by
    rw [← sumR_smul, List.map_map]; rfl
  have e1 : ∀ (g : Nat → Rat), sumR ((List.range (ny * nx)).map fun p => g p * (k * comVal (fun p => V.fin (q p)) mask p))
      = k * sumR ((List.range (ny * nx)).map fun p => g p * comVal (fun p => V.fin (q p)) mask p) := by
    intro g
    rw [← sumR_smul, List.map_map]
    congr 1
    apply List.map_congr_left
    intro p _; simp only [Function.comp]; ring
  rw [e0, e1, e1]
  by_cases ht : sumR ((List.range (ny * nx)).map (comVal (fun p => V.fin (q p)) mask)) = 0
  · simp [ht]
  · have : k * sumR ((List.range (ny * nx)).map (comVal (fun p => V.fin (q p)) mask)) ≠ 0 := mul_ne_zero hk ht
    rw [if_neg this, if_neg ht]
    congr 2 <;> field_simp

/-- a single non-zero pixel is its own centre of mass (sanity of the x/y convention: x = column, y = row) -/
example : centroidCom 3 4 (fun p => if p = 6 then V.fin 5 else V.fin 0) (fun _ => false) = some (2, 1) := by
  decide +kernel

/-! ### centroid_quadratic: the vertex formula -/

/-- for fitted coefficients of a quadratic with negative-definite Hessian the returned point is the vertex
    (the unique stationary point): both partial derivatives vanish there -/
theorem quadratic_vertex_exact (c10 c01 c11 c20 c02 : Rat) (ny nx : Nat) (x y : Rat)
    (h : quadVertex c10 c01 c11 c20 c02 ny nx = some (x, y)) :
    c10 + c11 * y + 2 * c20 * x = 0 ∧ c01 + c11 * x + 2 * c02 * y = 0 ∧
    0 < 4 * c20 * c02 - c11 * c11 ∧ 0 < x ∧ x < (nx : Rat) - 1 ∧ 0 < y ∧ y < (ny : Rat) - 1 := by
  unfold quadVertex at h
  simp only at h
  split at h
  · simp at h
  · rename_i hc
    have hdet : 0 < 4 * c20 * c02 - c11 * c11 := by
      by_contra hh; exact hc (Or.inl (not_lt.mp hh))
    split at h
    · rename_i hr
      simp only [Option.some.injEq, Prod.mk.injEq] at h
      obtain ⟨rfl, rfl⟩ := h
      have hne : 4 * c20 * c02 - c11 * c11 ≠ 0 := ne_of_gt hdet
      refine ⟨?_, ?_, hdet, hr.1, hr.2.1, hr.2.2.1, hr.2.2.2⟩
      · generalize hD : 4 * c20 * c02 - c11 * c11 = D at *
        have e : c10 + c11 * ((c10 * c11 - 2 * c20 * c01) / D) + 2 * c20 * ((c01 * c11 - 2 * c02 * c10) / D)
            = (c10 * D + c11 * (c10 * c11 - 2 * c20 * c01) + 2 * c20 * (c01 * c11 - 2 * c02 * c10)) / D := by
          field_simp
        rw [e, ← hD]
        have : c10 * (4 * c20 * c02 - c11 * c11) + c11 * (c10 * c11 - 2 * c20 * c01)
            + 2 * c20 * (c01 * c11 - 2 * c02 * c10) = 0 := by ring
        rw [this]; simp
      · generalize hD : 4 * c20 * c02 - c11 * c11 = D at *
        have e : c01 + c11 * ((c01 * c11 - 2 * c02 * c10) / D) + 2 * c02 * ((c10 * c11 - 2 * c20 * c01) / D)
            = (c01 * D + c11 * (c01 * c11 - 2 * c02 * c10) + 2 * c02 * (c10 * c11 - 2 * c20 * c01)) / D := by
          field_simp
        rw [e, ← hD]
        have : c01 * (4 * c20 * c02 - c11 * c11) + c11 * (c01 * c11 - 2 * c02 * c10)
            + 2 * c02 * (c10 * c11 - 2 * c20 * c01) = 0 := by ring
        rw [this]; simp
    · simp at h

/-- conversely: whenever a strict interior maximum exists the rule returns it, never NaN -/
theorem quadratic_vertex_found (c10 c01 c11 c20 c02 : Rat) (ny nx : Nat)
    (hdet : 0 < 4 * c20 * c02 - c11 * c11) (h20 : c20 < 0) (h02 : c02 < 0)
    (hx : 0 < (c01 * c11 - 2 * c02 * c10) / (4 * c20 * c02 - c11 * c11) ∧
          (c01 * c11 - 2 * c02 * c10) / (4 * c20 * c02 - c11 * c11) < (nx : Rat) - 1)
    (hy : 0 < (c10 * c11 - 2 * c20 * c01) / (4 * c20 * c02 - c11 * c11) ∧
          (c10 * c11 - 2 * c20 * c01) / (4 * c20 * c02 - c11 * c11) < (ny : Rat) - 1) :
    quadVertex c10 c01 c11 c20 c02 ny nx =
      some ((c01 * c11 - 2 * c02 * c10) / (4 * c20 * c02 - c11 * c11),
            (c10 * c11 - 2 * c20 * c01) / (4 * c20 * c02 - c11 * c11)) := by
  unfold quadVertex
  simp only
  rw [if_neg (by
    rintro (h | h | h)
    · linarith
    · linarith [h.1]
    · linarith [h.2])]
  rw [if_pos ⟨hx.1, hx.2, hy.1, hy.2⟩]

/-! ### centroid_sources acts per source -/

theorem foldl_append_fst {β : Type} (g : (Int × Int) → β) (os : List (Int × Int)) :
    ∀ (acc : List β) (kw : Kw),
      (os.foldl (fun (a : List β × Kw) o => (a.1 ++ [g o], sourceKw {} o)) (acc, kw)).1 = acc ++ os.map g := by
  induction os with
  | nil => intro acc kw; simp
  | cons o os ih => intro acc kw; simp only [List.foldl_cons, List.map_cons]; rw [ih]; simp

/-- MAIN: for the loop skeleton extracted from the source (keywords re-derived from the caller's keywords for
    every source), the result for each position is exactly the centroid function applied to that position's
    cut-out with keywords derived from the caller's, independent of the other positions and of their order -/
theorem centroid_sources_per_source {β : Type} (f : (Int × Int) → Kw → β) (origins : List (Int × Int)) :
    centroidSources f origins = origins.map fun o => f o (sourceKw {} o) := by
  unfold centroidSources
  have hc : (outerKwargsMutatedInLoop || !kwargsFreshPerSource) = false := by decide
  simp only [hc, Bool.false_eq_true, if_false]
  have := foldl_append_fst (fun o => f o (sourceKw {} o)) origins [] {}
  simpa using this

theorem centroid_sources_perm {β : Type} (f : (Int × Int) → Kw → β) (o1 o2 : List (Int × Int)) (h : o1.Perm o2) :
    (centroidSources f o1).Perm (centroidSources f o2) := by
  rw [centroid_sources_per_source, centroid_sources_per_source]; exact h.map _

/-- both re-basing additions (x and y) are present in the loop -/
theorem both_origins_added : originAdditions = 2 := by decide

/-- TABLE OBLIGATION (regenerated from `centroid_quadratic`): a supplied start position becomes a pixel through `py2intround` only
    (modelled by `Centroid.py2intround`, ties away from zero; its translation covariance on pixel coordinates is `C03.py2intround_translate`;
    seed C17-r10 used Python's half-to-even `round`) -/
theorem quad_start_rounding : quadStartUsesPy2intround = true := by decide

-- the documented rounding at exact half pixels: 0.5 → 1, 2.5 → 3, 4.5 → 5 (half-to-even would give 0, 2, 4)
example : py2intround (1 / 2) = 1 ∧ py2intround (5 / 2) = 3 ∧ py2intround (9 / 2) = 5 ∧ py2intround (-1 / 2) = -1 := by decide +kernel

/-- `py2intround` rounds half away from zero -/
example : py2intround (5/2) = 3 ∧ py2intround (-5/2) = -3 ∧ py2intround (7/4) = 2 := by decide +kernel

/-! ### no delegating call in this property's modules drops an argument it holds (table regenerated from the source) -/

/-- TABLE OBLIGATION: see `Gen/ForwardTable.lean` - every delegating call in these modules passes on each value the caller holds
    under the callee's own parameter name (seed C14-r6 dropped `footprint` from the centroid refinement of `find_peaks`) -/
theorem no_dropped_arguments : Gen.ForwardTable.droppedIn Gen.ForwardTable.scopeC17 =
    -- the one intended exception: `centroid_1dg` has already folded `mask` into the MaskedArray whose marginals it hands over
    [("centroids/gaussian.py", "centroid_1dg", "_gaussian1d_moments", "mask")] := by decide

end PhotVerif.C17
