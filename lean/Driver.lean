/- Line-protocol driver: `lake env lean --run Driver.lean < ops.txt` -/
import PhotVerif.Driver.All
open PhotVerif PhotVerif.Driver

partial def loop (h : IO.FS.Stream) (out : IO.FS.Stream) (st : DState) : IO Unit := do
  let line ← h.getLine
  if line.isEmpty then return ()
  let (st', r) := dispatch st line
  out.putStrLn r
  loop h out st'

def main : IO Unit := do
  let out ← IO.getStdout
  loop (← IO.getStdin) out {}
  out.flush
